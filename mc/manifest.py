#!/venv/bin/python
"""Regenerates /verif/MANIFEST.json from the table below and validates it against the schema."""
import json
import os
import sys

VERIF = os.path.dirname(os.path.dirname(os.path.abspath(__file__)))

ENGINES = {
    'hbfs': 'E1: breadth-first search over operation histories executed on the real objects in lockstep with a '
            'reference model; canonical-state dedup by generic introspection; fault menu in every state',
    'scope': 'E2: exhaustive enumeration of a finite configuration x argument product against a reference function',
    'sched': 'E3: real forked worker processes under an exhaustively enumerated dispatch/completion schedule '
             '(SchedPool replaces multiprocessing.Pool through the module global)',
    'ilv': 'E4: exhaustive enumeration of interleavings of model steps and ambient perturbations, process matrix',
}

# property -> (engine, technique, level text, level note, design ref)
CHECKS = {
    'C01': ('hbfs', 'explicit-state BFS over add/remove/step histories on the real SystemManager to the fixpoint, '
                    'lockstep reference model',
            'All reachable scheduler states over a 7-object pool (ties, negative priorities, colliding id, default '
            'collector) are visited and in each one every operation of the alphabet, including the rejected ones, '
            'is executed on the real code and compared with a sort-based reference; thorough adds a 13-object pool '
            'to a depth bound.',
            'Exhaustive relative to the pool; timestep dropped from the state hash (all windows default).',
            'DESIGN.md section 4 C01'),
    'C02': ('hbfs', 'exhaustive sweep of the (start,end,frequency,registration time) product x every timestep, plus '
                    'explicit-state BFS over add/execute(n)/execute_systems/rejected-n histories with a twin-world '
                    'differential for execute(n)',
            'Every window in the declared integer ranges (negative start, end<start, default end, frequency 1..5/7, '
            'late registration) is stepped through every timestep to the horizon on the real scheduler; the BFS leg '
            'visits all reachable states of a 5-window pool up to the horizon and executes every advance request and '
            'every rejected n there.',
            'Exhaustive within the integer ranges and horizon; window attributes not mutated after construction.',
            'DESIGN.md section 4 C02'),
    'C03': ('hbfs', 'explicit-state BFS over join/leave/attach/detach/explicit-register histories per world kind, '
                    'lockstep with a strict reference and an as-is pool model (known findings F1,F2,F3,F6)',
            'All reachable states of the trigger-free region are visited per world kind and every operation is compared '
            'with the strict reference; behind a listed trigger the search continues to a stated depth and every '
            'divergence must match the as-is model exactly, otherwise it is a violation; two models alive at once in '
            'a depth-bounded product.',
            'Exhaustive relative to 3 agent objects (one colliding id), 2 component types, 5 world kinds; the '
            'tainted region is bounded (2/3 operations behind the first trigger).',
            'DESIGN.md section 4 C03'),
    'C04': ('hbfs', 'explicit-state BFS over add/remove histories to the fixpoint with an exhaustive fault menu '
                    '(duplicate id, unknown id, out-of-range placement per axis and side) executed in every state',
            'Every reachable residency state per world kind is visited; in each state every rejected operation is '
            'executed on the real code and must raise the documented error and leave a generic full-field snapshot '
            'of model, environment, agents, components and pools bit-identical.',
            'Exhaustive relative to 4 pool agents (one colliding id) + a probe agent and the listed worlds.',
            'DESIGN.md section 4 C04'),
    'C05': ('scope', 'exhaustive enumeration of (priority vector, acting system, timestep, action[, second action]) '
                     'scenarios executed on the real scheduler, per-timestep event-sequence oracle',
            'Every scenario of the declared product (remove self/earlier/later, clean_up, register higher/equal/lower, '
            'remove+re-register, replace under the same id) is run for three timesteps and judged by the rules of the '
            'property (no rerun, no skip, order, removed-before-turn never runs).',
            'Exhaustive relative to priority vectors of length 2..4 (5) over {1,0,-1} and one (two) actions per timestep.',
            'DESIGN.md section 4 C05'),
    'C06': ('hbfs', 'explicit-state BFS to the fixpoint per (completer position, completing timestep) over '
                    'advance/complete/add/remove histories, lockstep reference',
            'All reachable states per configuration; in each, single-step, multi-step and error-raising advance '
            'requests, external completion and registry changes are executed; after completion a full-field snapshot '
            'must be unchanged by every advance request and the model never reports running again.',
            'Exhaustive relative to 3 recorders + completer positions first/mid/last/none, tc 0..2, clock horizon.',
            'DESIGN.md section 4 C06'),
    'C08': ('hbfs', 'explicit-state BFS to the fixpoint of the position state per (kind, extents, wrap) configuration '
                    'with an exact-rational oracle; depth-bounded two-agent product',
            'For every configuration all reachable positions are visited and from each the whole operation menu '
            '(in-range, boundary, far out-of-range moves; placements and absolute moves inside and one step outside) '
            'is executed and compared with modular / saturating arithmetic in exact rationals.',
            'Exhaustive relative to the extent sets and dyadic step sizes listed in the evidence; zero-extent axes '
            'kept at 0.', 'DESIGN.md section 4 C08'),
    'C09': ('scope', 'exhaustive enumeration of grid shapes x coordinate triples inside and one step outside',
            'Every shape with extents 0..3 (0..4) on each axis, line and 2-D worlds: bijection of ids onto 0..cells-1, '
            'position table round trip, get_cell row identity via a distinguishing cell component, IndexError outside.',
            'Exhaustive relative to the shape range.', 'DESIGN.md section 4 C09'),
    'C10': ('scope', 'exhaustive enumeration of shape x centre x representation x radius x kind x return type x '
                     'centre inclusion x entry point against a distance filter of the position table',
            'About 1.5e5 (quick) neighbourhood queries, every one compared element-wise and in order with the clipped '
            'Chebyshev / Manhattan ball computed from the world\'s own position table.',
            'Exhaustive relative to the shape range; wrap_env=False.', 'DESIGN.md section 4 C10'),
}

PENDING = {}


def build():
    with open(os.path.join(VERIF, 'properties.jsonl')) as f:
        props = [json.loads(l) for l in f if l.strip()]
    checks = []
    na = []
    for p in props:
        pid = p['id']
        if pid in CHECKS:
            eng, tech, text, note, ref = CHECKS[pid]
            checks.append({
                'property_id': pid,
                'quick_cmd': f'./check {pid} --tier quick',
                'thorough_cmd': f'./check {pid} --tier thorough',
                'evidence_file': f'/verif/evidence/{pid}.json',
                'replay_cmd_template': f'./check {pid} --replay {{path}}',
                'engine': eng,
                'level_claimed': {'category': 'model_checking', 'text': text, 'design_ref': ref},
                'level_note': note,
                'technique': tech,
            })
        else:
            na.append({'property_id': pid,
                       'reason': PENDING.get(pid, 'check not built yet (work in progress; model checking applies, '
                                                  'see DESIGN.md section 4)')})
    man = {
        'version': 1,
        'setup_cmd': 'mkdir -p evidence replays && /venv/bin/python -m compileall -q mc',
        'hooks': {
            'guard': 'ECAGENT_VERIF',
            'enable': 'no source hooks: every seam (Model.random, ECAgent.Batching.Pool, temp files, PYTHONHASHSEED) '
                      'is assigned from the harness process; the runner exports ECAGENT_VERIF=1 for symmetry only',
            'baseline_off_cmd': 'cd /repo && env -u ECAGENT_VERIF /venv/bin/python -m pytest -ra -q -p no:cacheprovider '
                                '--timeout=900 --continue-on-collection-errors',
            'source_commits': [],
            'add_only': True,
        },
        'engines': [{'name': k, 'path': f'mc/engine/{k}.py', 'kind_free_text': v,
                     'serves_properties': sorted(p for p, c in CHECKS.items() if c[0] == k)} for k, v in ENGINES.items()],
        'checks': checks,
        'notes': 'All checks explore the real implementation imported from /repo (no separate model): every explored '
                 'transition is an implementation transition. See DESIGN.md.',
        'not_applicable': na,
    }
    return man


def main():
    man = build()
    path = os.path.join(VERIF, 'MANIFEST.json')
    import jsonschema
    with open('/root/.vp/MANIFEST.schema.json') as f:
        schema = json.load(f)
    jsonschema.validate(man, schema)
    with open(path, 'w') as f:
        json.dump(man, f, indent=1)
        f.write('\n')
    print(f'wrote {path}: {len(man["checks"])} checks, {len(man["not_applicable"])} not yet claimed')


if __name__ == '__main__':
    sys.path.insert(0, VERIF)
    main()
