#!/venv/bin/python
"""Regenerates /verif/MANIFEST.json from the table below and validates it against the schema."""
import json
import os
import sys

VERIF = os.path.dirname(os.path.dirname(os.path.abspath(__file__)))

ENGINES = {
    'hbfs': 'E1: breadth-first search over operation histories executed on the real objects in lockstep with a '
            'reference model; canonical-state dedup by generic introspection; fault menu in every state',
    'scope': 'E2: exhaustive enumeration of a finite configuration x argument product against a reference function',
    'sched': 'E3: real forked worker processes under an exhaustively enumerated dispatch/completion schedule '
             '(SchedPool replaces multiprocessing.Pool through the module global)',
    'ilv': 'E4: exhaustive enumeration of interleavings of model steps and ambient perturbations, process matrix',
}

# property -> (engine, technique, level text, level note, design ref)
CHECKS = {
    'C01': ('hbfs', 'explicit-state BFS over add/remove/step histories on the real SystemManager to the fixpoint, '
                    'lockstep reference model',
            'All reachable scheduler states over a 7-object pool (ties, negative priorities, colliding id, default '
            'collector) are visited and in each one every operation of the alphabet, including the rejected ones, '
            'is executed on the real code and compared with a sort-based reference; thorough adds a 13-object pool '
            'to a depth bound.',
            'Exhaustive relative to the pool; timestep dropped from the state hash (all windows default).',
            'DESIGN.md section 4 C01'),
    'C02': ('hbfs', 'exhaustive sweep of the (start,end,frequency,registration time) product x every timestep, plus '
                    'explicit-state BFS over add/execute(n)/execute_systems/rejected-n histories with a twin-world '
                    'differential for execute(n)',
            'Every window in the declared integer ranges (negative start, end<start, default end, frequency 1..5/7, '
            'late registration) is stepped through every timestep to the horizon on the real scheduler; the BFS leg '
            'visits all reachable states of a 5-window pool up to the horizon and executes every advance request and '
            'every rejected n there.',
            'Exhaustive within the integer ranges and horizon; window attributes not mutated after construction.',
            'DESIGN.md section 4 C02'),
    'C03': ('hbfs', 'explicit-state BFS over join/leave/attach/detach/explicit-register histories per world kind, '
                    'lockstep with a strict reference and an as-is pool model (known findings F1,F2,F3,F6)',
            'All reachable states of the trigger-free region are visited per world kind and every operation is compared '
            'with the strict reference; behind a listed trigger the search continues to a stated depth and every '
            'divergence must match the as-is model exactly, otherwise it is a violation; two models alive at once in '
            'a depth-bounded product.',
            'Exhaustive relative to 3 agent objects (one colliding id), 2 component types, 5 world kinds; the '
            'tainted region is bounded (2/3 operations behind the first trigger).',
            'DESIGN.md section 4 C03'),
    'C04': ('hbfs', 'explicit-state BFS over add/remove histories to the fixpoint with an exhaustive fault menu '
                    '(duplicate id, unknown id, out-of-range placement per axis and side) executed in every state',
            'Every reachable residency state per world kind is visited; in each state every rejected operation is '
            'executed on the real code and must raise the documented error and leave a generic full-field snapshot '
            'of model, environment, agents, components and pools bit-identical.',
            'Exhaustive relative to 4 pool agents (one colliding id) + a probe agent and the listed worlds.',
            'DESIGN.md section 4 C04'),
}

PENDING = {}


def build():
    with open(os.path.join(VERIF, 'properties.jsonl')) as f:
        props = [json.loads(l) for l in f if l.strip()]
    checks = []
    na = []
    for p in props:
        pid = p['id']
        if pid in CHECKS:
            eng, tech, text, note, ref = CHECKS[pid]
            checks.append({
                'property_id': pid,
                'quick_cmd': f'./check {pid} --tier quick',
                'thorough_cmd': f'./check {pid} --tier thorough',
                'evidence_file': f'/verif/evidence/{pid}.json',
                'replay_cmd_template': f'./check {pid} --replay {{path}}',
                'engine': eng,
                'level_claimed': {'category': 'model_checking', 'text': text, 'design_ref': ref},
                'level_note': note,
                'technique': tech,
            })
        else:
            na.append({'property_id': pid,
                       'reason': PENDING.get(pid, 'check not built yet (work in progress; model checking applies, '
                                                  'see DESIGN.md section 4)')})
    man = {
        'version': 1,
        'setup_cmd': 'mkdir -p evidence replays && /venv/bin/python -m compileall -q mc',
        'hooks': {
            'guard': 'ECAGENT_VERIF',
            'enable': 'no source hooks: every seam (Model.random, ECAgent.Batching.Pool, temp files, PYTHONHASHSEED) '
                      'is assigned from the harness process; the runner exports ECAGENT_VERIF=1 for symmetry only',
            'baseline_off_cmd': 'cd /repo && env -u ECAGENT_VERIF /venv/bin/python -m pytest -ra -q -p no:cacheprovider '
                                '--timeout=900 --continue-on-collection-errors',
            'source_commits': [],
            'add_only': True,
        },
        'engines': [{'name': k, 'path': f'mc/engine/{k}.py', 'kind_free_text': v,
                     'serves_properties': sorted(p for p, c in CHECKS.items() if c[0] == k)} for k, v in ENGINES.items()],
        'checks': checks,
        'notes': 'All checks explore the real implementation imported from /repo (no separate model): every explored '
                 'transition is an implementation transition. See DESIGN.md.',
        'not_applicable': na,
    }
    return man


def main():
    man = build()
    path = os.path.join(VERIF, 'MANIFEST.json')
    import jsonschema
    with open('/root/.vp/MANIFEST.schema.json') as f:
        schema = json.load(f)
    jsonschema.validate(man, schema)
    with open(path, 'w') as f:
        json.dump(man, f, indent=1)
        f.write('\n')
    print(f'wrote {path}: {len(man["checks"])} checks, {len(man["not_applicable"])} not yet claimed')


if __name__ == '__main__':
    sys.path.insert(0, VERIF)
    main()
