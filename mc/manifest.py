#!/venv/bin/python
"""Regenerates /verif/MANIFEST.json from the table below and validates it against the schema."""
import json
import os
import sys

VERIF = os.path.dirname(os.path.dirname(os.path.abspath(__file__)))

ENGINES = {
    'hbfs': 'E1: breadth-first search over operation histories executed on the real objects in lockstep with a '
            'reference model; canonical-state dedup by generic introspection; fault menu in every state',
    'scope': 'E2: exhaustive enumeration of a finite configuration x argument product against a reference function',
    'sched': 'E3: real forked worker processes under an exhaustively enumerated dispatch/completion schedule '
             '(SchedPool replaces multiprocessing.Pool through the module global)',
    'ilv': 'E4: exhaustive enumeration of interleavings of model steps and ambient perturbations, process matrix',
}

# property -> (engine, technique, level text, level note, design ref)
CHECKS = {
    'C01': ('hbfs', 'explicit-state BFS over add/remove/step histories on the real SystemManager to the fixpoint, '
                    'lockstep reference model',
            'All reachable scheduler states over a 7-object pool (ties, negative priorities, colliding id, default '
            'collector) are visited and in each one every operation of the alphabet, including the rejected ones, '
            'is executed on the real code and compared with a sort-based reference; thorough adds a 13-object pool '
            'to a depth bound.',
            'Exhaustive relative to the pool; timestep dropped from the state hash (all windows default).',
            'DESIGN.md section 4 C01'),
    'C02': ('hbfs', 'exhaustive sweep of the (start,end,frequency,registration time) product x every timestep, plus '
                    'explicit-state BFS over add/execute(n)/execute_systems/rejected-n histories with a twin-world '
                    'differential for execute(n)',
            'Every window in the declared integer ranges (negative start, end<start, default end, frequency 1..5/7, '
            'late registration) is stepped through every timestep to the horizon on the real scheduler; the BFS leg '
            'visits all reachable states of a 5-window pool up to the horizon and executes every advance request and '
            'every rejected n there.',
            'Exhaustive within the integer ranges and horizon; window attributes not mutated after construction.',
            'DESIGN.md section 4 C02'),
    'C03': ('hbfs', 'explicit-state BFS over join/leave/attach/detach/explicit-register histories per world kind, '
                    'lockstep with a strict reference and an as-is pool model (known findings F1,F2,F3,F6)',
            'All reachable states of the trigger-free region are visited per world kind and every operation is compared '
            'with the strict reference; behind a listed trigger the search continues to a stated depth and every '
            'divergence must match the as-is model exactly, otherwise it is a violation; two models alive at once in '
            'a depth-bounded product.',
            'Exhaustive relative to 3 agent objects (one colliding id), 2 component types, 5 world kinds; the '
            'tainted region is bounded (2/3 operations behind the first trigger).',
            'DESIGN.md section 4 C03'),
    'C04': ('hbfs', 'explicit-state BFS over add/remove histories to the fixpoint with an exhaustive fault menu '
                    '(duplicate id, unknown id, out-of-range placement per axis and side) executed in every state',
            'Every reachable residency state per world kind is visited; in each state every rejected operation is '
            'executed on the real code and must raise the documented error and leave a generic full-field snapshot '
            'of model, environment, agents, components and pools bit-identical.',
            'Exhaustive relative to 4 pool agents (one colliding id) + a probe agent and the listed worlds.',
            'DESIGN.md section 4 C04'),
    'C05': ('scope', 'exhaustive enumeration of (priority vector, acting system, timestep, action[, second action]) '
                     'scenarios executed on the real scheduler, per-timestep event-sequence oracle',
            'Every scenario of the declared product (remove self/earlier/later, clean_up, register higher/equal/lower, '
            'remove+re-register, replace under the same id) is run for three timesteps and judged by the rules of the '
            'property (no rerun, no skip, order, removed-before-turn never runs).',
            'Exhaustive relative to priority vectors of length 2..4 (5) over {1,0,-1} and one (two) actions per timestep.',
            'DESIGN.md section 4 C05'),
    'C06': ('hbfs', 'explicit-state BFS to the fixpoint per (completer position, completing timestep) over '
                    'advance/complete/add/remove histories, lockstep reference',
            'All reachable states per configuration; in each, single-step, multi-step and error-raising advance '
            'requests, external completion and registry changes are executed; after completion a full-field snapshot '
            'must be unchanged by every advance request and the model never reports running again.',
            'Exhaustive relative to 3 recorders + completer positions first/mid/last/none, tc 0..2, clock horizon.',
            'DESIGN.md section 4 C06'),
    'C08': ('hbfs', 'explicit-state BFS to the fixpoint of the position state per (kind, extents, wrap) configuration '
                    'with an exact-rational oracle; depth-bounded two-agent product',
            'For every configuration all reachable positions are visited and from each the whole operation menu '
            '(in-range, boundary, far out-of-range moves; placements and absolute moves inside and one step outside) '
            'is executed and compared with modular / saturating arithmetic in exact rationals.',
            'Exhaustive relative to the extent sets and dyadic step sizes listed in the evidence; zero-extent axes '
            'kept at 0.', 'DESIGN.md section 4 C08'),
    'C09': ('scope', 'exhaustive enumeration of grid shapes x coordinate triples inside and one step outside',
            'Every shape with extents 0..3 (0..4) on each axis, line and 2-D worlds: bijection of ids onto 0..cells-1, '
            'position table round trip, get_cell row identity via a distinguishing cell component, IndexError outside.',
            'Exhaustive relative to the shape range.', 'DESIGN.md section 4 C09'),
    'C10': ('scope', 'exhaustive enumeration of shape x centre x representation x radius x kind x return type x '
                     'centre inclusion x entry point against a distance filter of the position table',
            'About 1.5e5 (quick) neighbourhood queries, every one compared element-wise and in order with the clipped '
            'Chebyshev / Manhattan ball computed from the world\'s own position table.',
            'Exhaustive relative to the shape range; wrap_env=False.', 'DESIGN.md section 4 C10'),
    'C11': ('hbfs', 'explicit-state BFS over add/remove/mutate-buffer histories of named cell components per grid '
                    'shape and source kind; known finding F4',
            'Every history up to the depth bound over 3 names x 7 source kinds per shape; after each operation every '
            'column is compared cell by cell with the value its source assigns to that cell, other columns / pos / row '
            'count must be untouched, and writes into the caller\'s buffer must not show through.',
            'Depth-bounded (3 / 4); shapes listed in the evidence; F4 divergences must match the as-is signature '
            '(exception and bit-identical table).', 'DESIGN.md section 4 C11'),
    'C12': ('scope', 'exhaustive product agent position x query point x leeway combination per world, plus '
                     'explicit-state BFS over populations with a query menu in every state; known finding F5',
            'Every (position, query, leeways) combination of the lattices is evaluated on the real query and compared '
            'with an exact-rational box filter; in wrapping worlds the seam-aware answer is required and the plain '
            'interval answer is accepted only as listed finding F5.',
            'Exhaustive relative to the lattices (step 0.5 / 1) and leeway sets; population leg depth-bounded.',
            'DESIGN.md section 4 C12'),
    'C13': ('hbfs', 'explicit-state BFS over populations to the fixpoint; in every state every template x tag query, and '
                    'exhaustive enumeration of the scripted model generator\'s decision tree for picks and shuffles',
            'All residency orders of 4-5 agent pools; in each every ordered template over X,Y,Z x tag filter is compared '
            'with a reference filter; the model generator is scripted so every pick and every permutation is reached.',
            'Exhaustive relative to the pools; assumes draws go through the model generator\'s integer primitive.',
            'DESIGN.md section 4 C13'),
    'C14': ('hbfs', 'explicit-state BFS over declaration histories; build() twice in every state against a nested-loop '
                    'product',
            'Every declaration of up to 3 parameters over 9 (11) value kinds incl. scalars, strings, empty, repeated '
            'values, range, numpy; order, multiplicity, independence of results and immutability of the declaration.',
            'Exhaustive relative to names a,b,c and the value kinds (fixpoint in thorough).', 'DESIGN.md section 4 C14'),
    'C17': ('hbfs', 'explicit-state BFS over population changes between/during timesteps per collector configuration; '
                    'exhaustive record-count sequences x write_count x window on real files with a check at every '
                    'stopping point',
            'Agent collector: full records list compared with a reference after every operation. File collector: '
            'after every timestep of every run the file text and the held records must equal the whole-flush prefix '
            'and remainder of everything collected.',
            'Depth-bounded agent leg; file leg exhaustive for T=5 (7), write_count 0..3 (0..5).',
            'DESIGN.md section 4 C17'),
    'C18': ('scope', 'exhaustive enumeration of model descriptions (shapes, sizes, priorities, hook subsets) decoded '
                     'from real JSON files, event-log oracle',
            'Each description is decoded three times (same file, other file in between); recording fixtures log every '
            'lifecycle event with the model state at that moment; the log must equal the documented lifecycle exactly.',
            'Exhaustive relative to <=2 systems, <=2 groups of size <=2, all hook subsets (restricted on the largest '
            'shape in quick).', 'DESIGN.md section 4 C18'),
    'C19': ('hbfs', 'explicit-state BFS over add_tag histories on a local and on the module-level library with '
                    'bystander libraries; fresh-interpreter leg for module-level histories',
            'Every history up to the depth bound over 16 (21) names incl. method names, dunders and odd strings; after '
            'every operation every library is read back in full (ids, names, itemize, len, out-of-range ids, probe '
            'add on a copy); rejected names must leave all three libraries bit-identical.',
            'Depth-bounded (3 / 4); module-level histories on a fresh module instance, depth <=1 (2) also in a real '
            'fresh interpreter.', 'DESIGN.md section 4 C19'),
    'C20': ('hbfs', 'explicit-state BFS over class-level attach/detach/default-tag/subclass histories on a fresh '
                    'class hierarchy with full read-back of every class and instance creation in every state',
            'Every history up to the depth bound; every class (base, siblings, two-level subclass, environments, '
            'classes defined mid-history) is read back after every operation; instances are created with and '
            'without explicit tags and given instance-level components.',
            'Depth-bounded (4 / 5).', 'DESIGN.md section 4 C20'),
    'C07': ('ilv', 'exhaustive enumeration of all merge orders of the atomic steps (build, execute) of 2-3 models and '
                   'ambient perturbations, plus a completely enumerated process / hash-seed matrix',
            'Every interleaving of the step sequences of two (three) scripted stochastic models and perturbations of '
            'random, numpy.random and an unrelated model is executed on fresh objects; each model\'s full trace digest '
            'must equal its solo digest; the same digests must come out of fresh interpreters under 4 hash seeds, '
            'fork and spawn workers and batch_run workers.',
            'Exhaustive relative to 3 model kinds, build+2 (3) steps per model, 2 perturbation atoms; seeds from '
            'VERIF_SEED (structure and verdict seed-independent).', 'DESIGN.md section 4 C07'),
    'C15': ('sched', 'exhaustive enumeration of worker schedules (per-worker task sequences x completion order) with '
                     'real forked workers behind ECAgent.Batching.Pool; exhaustive serial product; fault injection '
                     'at every batch position in every schedule',
            'batch_run is executed under every outcome of FIFO dispatch at chunksize 1 for batches of up to 4 (5) '
            'executions on 2..3 (5) workers and serially over grids x repetitions x step limits x collector '
            'selections; self-identifying records are compared with one reference result per execution.',
            'Schedule model: FIFO, chunksize 1, workers share nothing (each distinct per-worker task sequence runs '
            'once in a real forked process); bound to multiprocessing.Pool by a conformance leg.',
            'DESIGN.md section 4 C15'),
    'C16': ('sched', 'exhaustive enumeration of score tables x modes x shapes (serial) and of worker schedules for '
                     'selected tables, exact-rational reference',
            'Every assignment of values from {-2^70, 0, 1, 2^70} (thorough adds -3, 2^71) to every (combination, '
            'repetition) cell of every shape with <= 6 cells, every mode; parameters, records, exact aggregate and '
            'first-optimum rule checked; identical outcome under every schedule.',
            'Exhaustive relative to the value set and shapes; floats restricted to dyadic values.',
            'DESIGN.md section 4 C16'),
}

PENDING = {}
with open(os.path.join(VERIF, 'mc', 'manifest_notes.json')) as _f:
    NOTES = json.load(_f)


def build():
    with open(os.path.join(VERIF, 'properties.jsonl')) as f:
        props = [json.loads(l) for l in f if l.strip()]
    checks = []
    na = []
    for p in props:
        pid = p['id']
        if pid in CHECKS:
            eng, tech, text, note, ref = CHECKS[pid]
            note = note + ' ' + NOTES.get(pid, '')
            checks.append({
                'property_id': pid,
                'quick_cmd': f'./check {pid} --tier quick',
                'thorough_cmd': f'./check {pid} --tier thorough',
                'evidence_file': f'/verif/evidence/{pid}.json',
                'replay_cmd_template': f'./check {pid} --replay {{path}}',
                'engine': eng,
                'level_claimed': {'category': 'model_checking', 'text': text, 'design_ref': ref},
                'level_note': note,
                'technique': tech,
            })
        else:
            na.append({'property_id': pid,
                       'reason': PENDING.get(pid, 'check not built yet (work in progress; model checking applies, '
                                                  'see DESIGN.md section 4)')})
    man = {
        'version': 1,
        'setup_cmd': 'mkdir -p evidence replays && /venv/bin/python -m compileall -q mc',
        'hooks': {
            'guard': 'ECAGENT_VERIF',
            'enable': 'no source hooks: every seam (Model.random, ECAgent.Batching.Pool, temp files, PYTHONHASHSEED) '
                      'is assigned from the harness process; the runner exports ECAGENT_VERIF=1 for symmetry only',
            'baseline_off_cmd': 'cd /repo && env -u ECAGENT_VERIF /venv/bin/python -m pytest -ra -q -p no:cacheprovider '
                                '--timeout=900 --continue-on-collection-errors',
            'source_commits': [],
            'add_only': True,
        },
        'engines': [{'name': k, 'path': f'mc/engine/{k}.py', 'kind_free_text': v,
                     'serves_properties': sorted(p for p, c in CHECKS.items() if c[0] == k)} for k, v in ENGINES.items()],
        'checks': checks,
        'notes': 'All checks explore the real implementation imported from /repo (no separate model): every explored '
                 'transition is an implementation transition. See DESIGN.md.',
        'not_applicable': na,
    }
    return man


def main():
    man = build()
    path = os.path.join(VERIF, 'MANIFEST.json')
    import jsonschema
    with open('/root/.vp/MANIFEST.schema.json') as f:
        schema = json.load(f)
    jsonschema.validate(man, schema)
    with open(path, 'w') as f:
        json.dump(man, f, indent=1)
        f.write('\n')
    print(f'wrote {path}: {len(man["checks"])} checks, {len(man["not_applicable"])} not yet claimed')


if __name__ == '__main__':
    sys.path.insert(0, VERIF)
    main()
