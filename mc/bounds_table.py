#!/venv/bin/python
"""Prints the table of section 10.4 of DESIGN.md from the evidence files (quick: evidence/, thorough: evidence_thorough/)."""
import json
import os

HERE = os.path.dirname(os.path.dirname(os.path.abspath(__file__)))


def load(d, pid):
    p = os.path.join(HERE, d, pid + '.json')
    return json.load(open(p)) if os.path.exists(p) else None


def cell(ev):
    if ev is None:
        return '-'
    c = ev['coverage']
    legs = c.get('legs') or []
    caps = c.get('caps_hit') or []
    s = f"{c['states']:,} states, {c['transitions']:,} transitions, {c['traces_validated_against_impl']:,} executions on the real code, {len(legs)} legs"
    if caps:
        s += f"; {len(caps)} stated bound(s)"
    return s.replace(',', ' ')


print('| id | quick | thorough |')
print('|----|-------|----------|')
for i in range(1, 21):
    pid = f'C{i:02d}'
    print(f'| {pid} | {cell(load("evidence", pid))} | {cell(load("evidence_thorough", pid))} |')
