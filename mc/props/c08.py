"""C08 - agents stay inside the world; moves are exactly modular or saturating.

E1 history BFS to the fixpoint per configuration (world kind x extents x wrap), one agent with a rich operation
menu, and a depth-bounded two-agent leg.  The oracle works in exact rationals (all alphabet values are dyadic, so
the implementation's float arithmetic is exact too).
"""
import itertools
import sys
from fractions import Fraction as Fr

from mc.engine import hbfs, par
from mc.engine.report import Violation
from mc.engine.seams import Canon, new_model

import ECAgent.Core as Core
import ECAgent.Environments as Envs

PC = Envs.PositionComponent

META = {
    'rule': 'BFS over add/move/move_to/remove histories per (kind, extents, wrap) configuration to the fixpoint of '
            'the position state; distinct_nontrivial counts distinct (op kind, accepted?, resulting position) '
            'observations',
    'alphabet': {
        'kinds': ['space (continuous)', 'discrete (generic grid)', 'line', 'grid (2-D)'],
        'extents': 'grid {0,1,3} quick / {0,1,2,3,4} thorough per axis; continuous {0,1,1.5} step 0.5 quick / '
                   '{0,1,2.5,3} step 0.5 and {0,1,1.5} step 0.25 thorough',
        'move deltas per axis': '0, +-1, +-2, +-extent, +-(2*extent+1), +-10^6 (continuous also +-step; grids also '
                                '+-(10^18+7)) '
                                'and all sign patterns of (1,2,3) on the three axes',
        'move_to / add targets': 'corners, centre, every lattice value per axis through the centre (grids with <= 27 '
                                 'cells: every cell), one step outside on each side of each positive axis from two '
                                 'base points',
    },
    'bounds': {'quick': 'one agent: fixpoint for every configuration; two agents: depth 3 on 6 configurations',
               'thorough': 'wider extents, quarter steps, two agents depth 4 on 12 configurations'},
    'assumptions': ['coordinates on zero-extent axes are kept at 0 by the alphabet and nothing is asserted about them',
                    'canonical state = generic full-field hash of model, world and agents (cells table dropped); extents '
                    'are 0 or >= 1 as the quantifier says'],
}


def wrap_flag(wrap):
    """JSON form of the flag -> the object handed to the constructor (truthy values other than True included)."""
    if wrap == 'np_true':
        import numpy as np
        return np.bool_(True)
    if wrap == 'np_cmp':
        import numpy as np
        return np.array([3])[0] > 2          # the result of a numpy comparison
    return wrap


class Slab(Envs.DiscreteWorld):
    """A user world reporting two of its axes (x, z) from the documented get_dimensions() hook."""

    def get_dimensions(self):
        return self.width, self.depth


class Flipped(Envs.SpaceWorld):
    def get_dimensions(self):
        return self.height, self.width, self.depth


def mk_world(model, kind, dims, wrap):
    wrap = wrap_flag(wrap)
    if kind == 'slab':
        return Slab(model, *dims, wrap_env=wrap)
    if kind == 'flipped':
        return Flipped(model, *dims, wrap_env=wrap)
    if kind == 'space':
        return Envs.SpaceWorld(model, *dims, wrap_env=wrap)
    if kind == 'discrete':
        return Envs.DiscreteWorld(model, *dims, wrap_env=wrap)
    if kind == 'line':
        return Envs.LineWorld(model, dims[0], wrap_env=wrap)
    if kind == 'grid':
        return Envs.GridWorld(model, dims[0], dims[1], wrap_env=wrap)
    raise ValueError(kind)


def num(v):
    """JSON number -> the value handed to the implementation (ints stay ints); 'e5000' / '-e5000' stand for +-10**5000,
    integers with more digits than Python converts to text (or JSON reads back) by default."""
    if isinstance(v, str):
        return (-1 if v.startswith('-') else 1) * 10 ** int(v.lstrip('-')[1:])
    return v


def lattice(E, cont, step):
    if E <= 0:
        return [0]
    if cont:
        n = int(Fr(E) / Fr(step))
        return [float(Fr(step) * i) if (Fr(step) * i).denominator != 1 else float(Fr(step) * i) for i in range(n + 1)]
    return list(range(E))


class World:
    pass


class Waypoint(Envs.PositionComponent):
    """A user component derived from PositionComponent: a place the agent is heading for, not where it is."""


class Energy(Core.Component):
    """Something an agent picks up while it lives in the world."""


class Bag(Core.Agent):
    """An agent class with its own notion of length (number of carried items): always 0 here."""

    def __len__(self):
        return 0


def make_agent(key, model):
    """Pool agents by key: 'e' is a nested (empty) environment used as an agent, 'g' a Bag, 'h' an agent whose CLASS
    carries a class-level PositionComponent (the herd's home) - none of which changes where the agent itself is."""
    if key == 'e':
        return Core.Environment(model, 'e')
    if key == 'g':
        return Bag('g', model)
    if key == 'h':
        Homed = type('Homed', (Core.Agent,), {})
        Homed.add_class_component(PC(Homed, model, 1, 1, 1))
        return Homed('h', model)
    if key == 'i':
        return Core.Agent(7, model)          # an agent numbered rather than named
    if key == 'n':
        return Core.Agent('7', model)        # an agent whose NAME is a numeral
    if key == 'y':
        a = Core.Agent('y', model)           # carries a waypoint (a component DERIVED from PositionComponent) before it
        a.add_component(Waypoint(a, model, 40, 40, 40))      # is placed: not its position, and far outside any world
        return a
    return Core.Agent(key, model)


class Harness:
    def __init__(self, kind, dims, wrap, agents=('a',), rich=True, step=0.5):
        self.kind, self.dims, self.wrap = kind, list(dims), bool(wrap_flag(wrap))
        self.wrap_arg = wrap
        self.agents = list(agents)
        self.rich = rich
        self.step = step
        self.cont = kind in ('space', 'flipped')
        self.off = 0 if self.cont else 1
        self.config = {'kind': kind, 'dims': list(dims), 'wrap': wrap, 'agents': list(agents), 'rich': rich,
                       'step': step}
        self.nargs = {'space': 3, 'discrete': 3, 'line': 1, 'grid': 2, 'slab': 3, 'flipped': 3}[kind]
        d3 = list(dims) + [0] * (3 - len(dims))
        self.d3 = d3
        self._menu = self._build_menu()
        self.cn = Canon(drop={('DiscreteWorld', 'cells'), ('LineWorld', 'cells'), ('GridWorld', 'cells')})

    # ------------------------------------------------------------------------------------------------
    def _build_menu(self):
        d3, cont = self.d3, self.cont
        lat = [lattice(E, cont, self.step) for E in d3]
        hi = [l[-1] if not cont else (float(E) if E > 0 else 0) for l, E in zip(lat, d3)]
        if cont:
            lat = [l if E <= 0 else sorted(set(l + [float(E)])) for l, E in zip(lat, d3)]
        centre = [l[len(l) // 2] for l in lat]
        targets = []
        cells = 1
        for l in lat:
            cells *= len(l)
        if self.rich and cells <= 27:
            targets = [list(p) for p in itertools.product(*lat)]
        else:
            for corner in itertools.product(*[[l[0], h] if h != l[0] else [l[0]] for l, h in zip(lat, hi)]):
                targets.append(list(corner))
            targets.append(list(centre))
            if self.rich:
                for ax in range(3):
                    for v in lat[ax]:
                        p = list(centre)
                        p[ax] = v
                        targets.append(p)
        outside = []
        for base in ([l[0] for l in lat], hi):
            for ax in range(3):
                if d3[ax] > 0:
                    lo = -self.step if cont else -1
                    up = d3[ax] + self.step if cont else d3[ax]
                    for v in (lo, up) + (() if cont else (d3[ax] + 3,)):
                        p = list(base)
                        p[ax] = v
                        outside.append(p)
                    if not cont and base is hi:
                        # far outside, but equal to an accepted coordinate modulo the modulus Python hashes ints with
                        # (and modulo 2**64): a memo of accepted targets keyed by hash must not take it for a known one
                        for far in (base[ax] + sys.hash_info.modulus, base[ax] - sys.hash_info.modulus, base[ax] + 2 ** 64):
                            p = list(base)
                            p[ax] = far
                            outside.append(p)
        seen, uniq = set(), []
        for p in targets + outside:
            # only coordinates the entry point can express: line takes x, 2-D grid x,y
            if any(p[i] != 0 for i in range(self.nargs, 3)):
                continue
            t = tuple(p)
            if t not in seen:
                seen.add(t)
                uniq.append(p)
        deltas = []
        for ax in range(3):
            E = d3[ax]
            vals = [0, 1, -1, 2, -2, 10 ** 6, -10 ** 6]
            if E > 0:
                vals += [E, -E, 2 * E + 1, -(2 * E + 1)]
            if cont:
                vals += [self.step, -self.step]
            else:
                vals += [10 ** 18 + 7, -(10 ** 18 + 7)]     # far beyond 2**53: integer arithmetic must stay exact
                if E > 0 and self.rich:
                    vals += ['e5000', '-e5000']             # beyond what int -> str conversion accepts by default
            if not self.rich:
                vals = [1, -1] + ([E, -E] if E > 0 else []) + ([self.step] if cont else [])
            for v in vals:
                d = [0, 0, 0]
                d[ax] = v
                if d not in deltas:
                    deltas.append(d)
        if self.rich:
            for sx, sy, sz in itertools.product((1, -1), repeat=3):
                deltas.append([sx * 1, sy * 2, sz * 3])
        # absolute moves that name only some of the axes: the others take the documented default 0
        names = ('x', 'y', 'z')[:self.nargs]
        partial = [{}]
        for i, n in enumerate(names):
            if d3[i] > 0:
                partial.append({n: hi[i]})
        if self.nargs == 3 and d3[0] > 0 and d3[2] > 0:
            partial.append({'x': centre[0], 'z': hi[2]})
        return {'targets': uniq, 'deltas': deltas, 'partial': partial if self.rich else partial[:2]}

    # ------------------------------------------------------------------------------------------------
    def fresh(self):
        w = World()
        w.model = new_model(seed=1)
        w.env = w.model.environment = mk_world(w.model, self.kind, self.dims, self.wrap_arg)
        w.agents = {k: make_agent(k, w.model) for k in self.agents}
        w.pos = {k: None for k in self.agents}      # reference positions as Fractions, None = not resident
        w.last = None
        return w

    def ops(self, w):
        ops = [] if not w.model.is_running() or not self.rich else [['complete', self.agents[0]]]
        for k in self.agents:
            if w.pos[k] is None:
                ops += [['add', k, t] for t in self._menu['targets']]
                ops.append(['add0', k])
            else:
                ops += [['move', k, d] for d in self._menu['deltas']]
                ops += [['move_to', k, t] for t in self._menu['targets']]
                ops += [['move_to_kw', k, kw] for kw in self._menu['partial']]
                ops.append(['remove', k])
                ops.append(['remove_obj', k])
                if k in ('i', 'n'):
                    ops.append(['remove_twin', k])      # removal naming the number 7 where the agent is called '7', and v.v.
                if self.rich and self.agents == ['a'] and list(self.dims) in ([3, 2], [3], [1.5, 1, 0]) and \
                        Energy not in w.agents[k].components:
                    ops.append(['gain', k])      # the agent picks up another component while it lives in the world
                # placing an agent that is already in the world again (elsewhere): rejected, nothing moves
                ops += [['readd', k, t] for t in self._menu['targets'][:3]]
        return ops

    def _in_range(self, p):
        for ax in range(3):
            E = self.d3[ax]
            if E > 0 and not (0 <= Fr(p[ax]) <= Fr(E) - self.off):
                return False
        return True

    def _call_args(self, p):
        return [num(v) for v in p[:self.nargs]]

    @staticmethod
    def _styled(fn, agent, args, names):
        """The same call written three ways - positional, by keyword, first coordinate positional and the rest by
        keyword - chosen by the arguments themselves (so every style meets every kind of target)."""
        try:
            style = int(sum(abs(2 * float(v)) for v in args)) % 3 if all(v == v for v in args) else 0
        except OverflowError:
            style = 1
        if style == 0 or not args:
            return fn(agent, *args)
        if style == 1:
            return fn(agent, **dict(zip(names, args)))
        return fn(agent, args[0], **dict(zip(names[1:], args[1:])))

    def _read(self, w, k):
        a = w.agents[k]
        if PC not in a:
            return None
        return tuple(a[PC].xyz())

    def apply(self, w, op):
        kind, k = op[0], op[1]
        if kind == 'complete':
            w.model.complete()      # a finished model: placing and moving agents (post-run analysis, replay) works as before
            w.last = ('complete', True, None)
            return
        a = w.agents[k]
        others = {o: self._read(w, o) for o in self.agents if o != k}
        before = self._read(w, k)
        if kind in ('add', 'add0'):
            p = [0, 0, 0] if kind == 'add0' else op[2]
            ok = self._in_range(p)
            if a[PC] is not None and before is None:      # (a lookup that finds nothing, as models do before placing an agent)
                raise Violation(f'agent {k} answers a position component although it has none')
            try:
                if kind == 'add0':
                    w.env.add_agent(a)
                else:
                    self._styled(w.env.add_agent, a, self._call_args(p), ('x_pos', 'y_pos', 'z_pos'))
                raised = None
            except Exception as e:
                raised = e
            if ok:
                if raised is not None:
                    raise Violation(f'in-range placement at {p} rejected: {type(raised).__name__}: {raised}')
                w.pos[k] = tuple(Fr(v) for v in p)
                self._expect_at(w, k, w.pos[k], f'placement at {p}')
            else:
                if raised is None:
                    raise Violation(f'placement at {p} outside world {self.d3} accepted', expected='Exception',
                                    observed=self._read(w, k))
                if isinstance(raised, (Core.DuplicateAgentError, TypeError, AttributeError, KeyError)):
                    raise Violation(f'placement at {p} outside the world raised {type(raised).__name__}')
                if self._read(w, k) is not None or w.env.get_agent(a.id) is not None:
                    raise Violation(f'rejected placement at {p} left the agent resident or positioned')
            w.last = (kind, ok, w.pos[k])
        elif kind == 'move':
            d = op[2]
            old = w.pos[k]
            new = []
            for ax in range(3):
                E = self.d3[ax]
                if E > 0:
                    if self.wrap:
                        new.append((old[ax] + Fr(num(d[ax]))) % Fr(E))
                    else:
                        new.append(min(max(old[ax] + Fr(num(d[ax])), Fr(0)), Fr(E) - self.off))
                else:
                    new.append(None)     # nothing is claimed about zero-extent axes
            self._styled(w.env.move, a, [num(v) for v in d], ('x', 'y', 'z'))
            got = self._read(w, k)
            for ax in range(3):
                if new[ax] is None:
                    new[ax] = Fr(got[ax]) if got is not None else Fr(0)
            w.pos[k] = tuple(new)
            self._expect_at(w, k, w.pos[k], f'move by {d} from {[float(v) for v in old]}')
            w.last = (kind, True, w.pos[k])
        elif kind == 'move_to':
            p = op[2]
            ok = self._in_range(p)
            try:
                self._styled(w.env.move_to, a, self._call_args(p), ('x', 'y', 'z'))
                raised = None
            except IndexError as e:
                raised = e
            if ok:
                if raised is not None:
                    raise Violation(f'in-range move_to {p} rejected')
                w.pos[k] = tuple(Fr(v) for v in p)
                self._expect_at(w, k, w.pos[k], f'move_to {p}')
            else:
                if raised is None:
                    raise Violation(f'move_to {p} outside world {self.d3} accepted', expected='IndexError',
                                    observed=self._read(w, k))
                if self._read(w, k) != before:
                    raise Violation(f'rejected move_to {p} changed the position', expected=before,
                                    observed=self._read(w, k))
            w.last = (kind, ok, w.pos[k])
        elif kind == 'move_to_kw':
            kw = op[2]
            w.env.move_to(a, **kw)
            p = [kw.get(n, 0) for n in ('x', 'y', 'z')]
            w.pos[k] = tuple(Fr(v) for v in p)
            self._expect_at(w, k, w.pos[k], f'move_to with only {sorted(kw)} given ({kw}; the other axes default to 0)')
            w.last = (kind, True, w.pos[k])
        elif kind == 'readd':
            p = op[2]
            try:
                w.env.add_agent(a, *self._call_args(p))
            except Exception as e:
                if self._in_range(p) and not isinstance(e, Core.DuplicateAgentError):
                    raise Violation(f'placing the resident agent again at {p} raised {type(e).__name__}',
                                    expected='DuplicateAgentError')
                if self._read(w, k) != before:
                    raise Violation(f'rejected re-placement at {p} of an agent that is already in the world moved it',
                                    expected=before, observed=self._read(w, k))
                w.last = (kind, False, w.pos[k])
            else:
                raise Violation(f'placing an agent that is already in the world again at {p} was accepted')
        elif kind == 'remove_twin':
            twin = str(a.id) if not isinstance(a.id, str) else int(a.id)
            try:
                w.env.remove_agent(twin)
            except Exception:      # noqa - refused: nobody of that id lives here
                pass
            else:
                raise Violation(f'remove_agent({twin!r}) was accepted although the resident is called {a.id!r}')
            if w.env.get_agent(a.id) is not a or self._read(w, k) != before:
                raise Violation(f'the refused remove_agent({twin!r}) left a trace on the resident called {a.id!r}',
                                expected=before, observed=self._read(w, k))
            w.last = (kind, False, w.pos[k])
        elif kind == 'remove_obj':
            # the agent OBJECT is passed where its id is expected: refused without a trace, or - should the library
            # take it for its id - exactly what removal by id does (the agent leaves AND loses its position)
            try:
                w.env.remove_agent(a)
            except Exception:      # noqa
                if self._read(w, k) != before or w.env.get_agent(a.id) is not a:
                    raise Violation(f'remove_agent(<agent object {k}>) was refused but left a trace',
                                    expected=before, observed=self._read(w, k))
                w.last = (kind, False, None)
            else:
                gone, bare = w.env.get_agent(a.id) is None, PC not in a
                if gone != bare:
                    raise Violation(f'remove_agent(<agent object {k}>): agent {"left" if gone else "stayed in"} the '
                                    f'world but {"lost" if bare else "kept"} its position', observed=self._read(w, k))
                if gone:
                    w.pos[k] = None
                elif self._read(w, k) != before:
                    raise Violation(f'remove_agent(<agent object {k}>) kept the agent but moved it')
                w.last = (kind, True, gone)
        elif kind == 'gain':
            c = Energy(a, w.model)
            a.add_component(c)
            w.model.systems.register_component(c)      # registered by hand, like any component attached to a resident
            w.last = (kind, True, w.pos[k])
        elif kind == 'remove':
            had = a.components.get(Energy)
            w.env.remove_agent(a.id)
            w.pos[k] = None
            if PC in a:
                raise Violation('agent still carries a position after leaving the world')
            if a.components.get(Energy) is not had:
                raise Violation('leaving the world dropped a component the agent had picked up there (not its position)')
            if w.env.get_agent(a.id) is not None:
                raise Violation('agent still resident after remove_agent')
            w.last = (kind, True, None)
        else:
            raise ValueError(op)
        for o, p in others.items():
            if self._read(w, o) != p:
                raise Violation(f'{op} on {k} moved the other agent {o}', expected=p, observed=self._read(w, o))

    def _expect_at(self, w, k, want, what):
        got = self._read(w, k)
        if got is None:
            raise Violation(f'{what}: agent has no position', expected=[float(v) for v in want])
        for ax in range(3):
            E = self.d3[ax]
            if E > 0:
                g = Fr(got[ax])
                if not (0 <= g <= Fr(E) - self.off):
                    raise Violation(f'{what}: coordinate {got[ax]} on axis {ax} is outside [0, {E - self.off}]',
                                    expected=[float(v) for v in want], observed=list(got))
                if g != want[ax]:
                    raise Violation(f'{what}: landed at {list(got)}', expected=[float(v) for v in want],
                                    observed=list(got))

    def check(self, w):
        for k in self.agents:
            res = w.env.get_agent(w.agents[k].id) is not None
            if res != (w.pos[k] is not None):
                raise Violation(f'residency of {k} differs from the reference')
            if res:
                self._expect_at(w, k, w.pos[k], 'state')

    def canon(self, w):
        # generic full-field canon (not just positions): a cache, a stale reference or any other hidden state a change
        # to the library introduces makes states distinct instead of being merged away.  The cells table is dropped:
        # no operation of this alphabet touches cell components.
        return self.cn(w.model, [w.agents[k] for k in self.agents])

    def refstate(self, w):
        return (w.model.is_running(),) + tuple(None if w.pos[k] is None else tuple((v.numerator, v.denominator) for v in w.pos[k])
                     for k in self.agents)

    def outcome(self, w):
        return w.last


def configs(tier):
    if tier == 'quick':
        g, spaces = (0, 1, 3), [((0, 1, 1.5), 0.5)]
        lines, grids = (1, 3), ((1, 1), (3, 2), (1, 3))
    else:
        g, spaces = (0, 1, 2, 3, 4), [((0, 1, 2.5, 3), 0.5), ((0, 1, 1.5), 0.25)]
        lines, grids = (1, 2, 3, 5), ((1, 1), (3, 2), (1, 3), (2, 2), (4, 3), (2, 5))
    out = []
    for wrap in (False, True):
        for dims in itertools.product(g, repeat=3):
            out.append(('discrete', list(dims), wrap, ['a'], True, 1))
        for c, step in spaces:
            for dims in itertools.product(c, repeat=3):
                out.append(('space', list(dims), wrap, ['a'], True, step))
        for n in lines:
            out.append(('line', [n], wrap, ['a'], True, 1))
        for wh in grids:
            out.append(('grid', list(wh), wrap, ['a'], True, 1))
    return out


def odd_flag_configs():
    # truthy wrap flags that are not the object True
    out = []
    for flag in (1, 'np_true', 'np_cmp'):
        out += [('discrete', [3, 1, 0], flag, ['a'], True, 1), ('space', [1.5, 1, 0], flag, ['a'], True, 0.5),
                ('grid', [3, 2], flag, ['a'], True, 1), ('line', [3], flag, ['a'], True, 1)]
    return out


def replaced_world_case(case):
    """A model's world is replaced by another one (same default id, other kind / extents): moves in the new world are
    governed by the new world's extents only."""
    from mc.engine.seams import reset_library
    reset_library()
    model = new_model(seed=1)
    first = model.environment = mk_world(model, case['first'][0], case['first'][1], case['wrap'])
    a0 = Core.Agent('p', model)
    first.add_agent(a0)
    first.move(a0, 10 ** 6, 10 ** 6, 10 ** 6)
    first.move(a0, -1, 0, 0)
    kind, dims = case['second']
    second = mk_world(model, kind, dims, case['wrap'])
    if case.get('install', True):
        model.set_environment(second)
    # else: the second world is used side by side with the installed one (a model with two spatial layers); a world's
    # moves are governed by its own extents whether or not it is the model's installed environment
    h = Harness(kind, dims, case['wrap'])
    w = World()
    w.model, w.env = model, second
    w.agents = {'a': Core.Agent('a', model)}
    w.pos = {'a': None}
    w.last = None
    steps = 0
    for op in ([['add0', 'a']] + [['move', 'a', d] for d in h._menu['deltas']] +
               [['move_to', 'a', t] for t in h._menu['targets'][:6]] + [['move', 'a', d] for d in h._menu['deltas'][:8]]):
        h.apply(w, op)
        steps += 1
    return steps


def edge_case(case):
    """Continuous worlds whose extents are not dyadic (7.3, 0.3, 12.7 ...): a relative move lands at old + delta saturated
    to the edges (exactly the edge when it saturates), or inside 0..extent when the world wraps."""
    from mc.engine.seams import reset_library
    reset_library()
    model = new_model(seed=1)
    E = case['extent']
    world = mk_world(model, 'space', [E, E, 0], case['wrap'])
    n = 0
    for start in case['starts']:
        for delta in case['deltas']:
            a = Core.Agent(f'a{n}', model)
            world.add_agent(a, start, E - start if 0 <= E - start <= E else start)
            y0 = a[PC].y
            world.move(a, delta, -delta)
            x, y = a[PC].x, a[PC].y
            n += 1
            if case['wrap']:
                ok = 0 <= x <= E and 0 <= y <= E
                want = 'inside 0..%r' % E
            else:
                want = [min(max(start + delta, 0), E), min(max(y0 - delta, 0), E)]
                ok = [x, y] == want
            if not ok:
                raise Violation(f'space world {E} x {E} (wrap {case["wrap"]}): agent at ({start!r}, {y0!r}) moved by '
                                f'({delta!r}, {-delta!r})', expected=want, observed=[x, y])
            world.remove_agent(a.id)
    return n


def edge_cases():
    for E in (7.3, 0.3, 12.7, 100.1, 2 / 3, 1e-3, 5.0, 1e9 + 0.1):
        for wrap in (False, True):
            yield {'leg': 'edge', 'extent': E, 'wrap': wrap, 'starts': [0.0, E, E / 3, E * 0.19, E - E / 7, E / 2],
                   'deltas': [E, -E, 100 * E, -100 * E, E / 10, E * 0.81, E * 0.9, E / 3, -E / 3, 5.95 * E / 7.3, 1e-9, -1e-9]}


def shared_value_case(case):
    """Coordinates and displacements handed over as objects that support in-place arithmetic (0-d numpy arrays), one object
    used for two agents: each agent keeps its own position, the caller's object is not touched."""
    from mc.engine.seams import reset_library
    import numpy as np
    reset_library()
    model = new_model(seed=1)
    kind, dims = case['world']
    world = mk_world(model, kind, dims, case['wrap'])
    cont = kind == 'space'
    mkv = {'arr0d': lambda v: np.asarray(float(v) if cont else int(v)), 'npscalar': lambda v: (np.float64 if cont else np.int64)(v),
           'plain': lambda v: float(v) if cont else int(v)}[case['form']]
    c, d = mkv(2), mkv(1)
    a, b = Core.Agent('a', model), Core.Agent('b', model)
    nax = 1 if kind == 'line' else 2
    world.add_agent(a, *[c] * nax)
    world.add_agent(b, *[c] * nax)
    ext = [e for e in (list(dims) + [0, 0])[:3]]

    def where(ag):
        return [float(v) for v in ag[PC].xyz()]

    def land(old, delta, e):
        if e <= 0:
            return old
        if case['wrap']:
            return (old + delta) % e
        return min(max(old + delta, 0), e if cont else e - 1)
    pos = {'a': [2.0] * nax + [0.0] * (3 - nax), 'b': [2.0] * nax + [0.0] * (3 - nax)}
    n = 0
    for who, ag in (('a', a), ('b', b), ('a', a), ('a', a), ('b', b)):
        world.move(ag, *[d] * nax)
        for i in range(nax):
            pos[who][i] = land(pos[who][i], 1.0, ext[i])
        n += 1
        got = {'a': where(a), 'b': where(b)}
        if got != pos or float(c) != 2 or float(d) != 1:
            raise Violation(f'{kind} world {dims} (wrap {case["wrap"]}), coordinates given as {case["form"]} (one object for both '
                            f'agents): after move {n} (agent {who} by 1 on every axis) the positions of a and b / the '
                            f'caller\'s own values 2 and 1', expected=[pos, 2.0, 1.0], observed=[got, float(c), float(d)])
    return n


def shared_value_cases():
    for world in (('space', [4.0, 3.0, 0]), ('grid', [5, 4]), ('line', [6]), ('discrete', [5, 4, 0])):
        for wrap in (False, True):
            for form in ('arr0d', 'npscalar', 'plain'):
                yield {'leg': 'shared_value', 'world': list(world), 'wrap': wrap, 'form': form}


TWO_MOVERS = [('grid', [5, 4], [1, 1], [3, 2]), ('space', [4.0, 3.0, 0], [0.5, 1.0, 0], [3.5, 2.0, 0]),
              ('discrete', [3, 3, 3], [0, 1, 2], [2, 0, 1])]
TWO_CALLS = [('move', [1, 1, 0]), ('move', [-2, 3, 0]), ('move_to', [2, 0, 0]), ('move', [7, -7, 1])]


def two_movers_case(case):
    """Two threads each move their own agent in one world, the second cutting into the first at every line of library
    code (E5): each agent lands where its own call sends it."""
    from mc.engine import preempt
    from mc.engine.seams import reset_library
    kind, dims, pa, pb = TWO_MOVERS[case['world']]
    wrap = case['wrap']
    ca, cb = TWO_CALLS[case['a']], TWO_CALLS[case['b']]
    h = Harness(kind, dims, wrap, ['a', 'b'], False, 0.5 if kind == 'space' else 1)
    state = {}

    def expected(pos, call):
        if call[0] == 'move_to':
            return tuple(Fr(v) for v in call[1])
        out = []
        for ax in range(3):
            E = h.d3[ax]
            if E <= 0:
                out.append(None)
            elif h.wrap:
                out.append((Fr(pos[ax]) + Fr(call[1][ax])) % Fr(E))
            else:
                out.append(min(max(Fr(pos[ax]) + Fr(call[1][ax]), Fr(0)), Fr(E) - h.off))
        return tuple(out)

    def make():
        reset_library()
        model = new_model(seed=1)
        env = model.environment = mk_world(model, kind, dims, wrap)
        a, b = Core.Agent('a', model), Core.Agent('b', model)
        env.add_agent(a, *pa[:h.nargs])
        env_b = env
        if case.get('two_worlds'):
            # the second mover lives in a world of its own (same shape, another model): scratch state shared by all
            # worlds of the process would still be shared
            m2 = new_model(seed=2)
            env_b = m2.environment = mk_world(m2, kind, dims, wrap)
            b = Core.Agent('b', m2)
        env_b.add_agent(b, *pb[:h.nargs])
        state['a'], state['b'] = a, b

        def call(world, agent, c):
            fn = world.move if c[0] == 'move' else world.move_to
            return lambda: fn(agent, *c[1][:h.nargs])
        return call(env, a, ca), call(env_b, b, cb)

    def judge(k, box_a, box_b):
        for who, box, start, c in (('a', box_a, pa, ca), ('b', box_b, pb, cb)):
            want = expected(start, c)
            got = tuple(state[who][PC].xyz())
            bad = box.error is not None or any(wv is not None and Fr(g) != wv for g, wv in zip(got, want))
            if bad:
                raise Violation(f'two threads moving two agents of one {kind} world {dims} (wrap={wrap}): agent {who} '
                                f'({c[0]} {c[1]} from {start}) ended up elsewhere when the second call cut into the first at '
                                f'line event {k}', expected=[None if v is None else float(v) for v in want],
                                observed=repr(box.error) if box.error else list(got))
    return preempt.check_pair(make, judge, case.get('k'))


def two_agent_configs(tier):
    base = [('discrete', [3, 2, 0]), ('space', [2.5, 1, 0]), ('grid', [3, 2])]
    if tier == 'thorough':
        base += [('discrete', [2, 2, 2]), ('space', [1, 0, 3]), ('line', [3])]
    return [(k, d, wrap, ['a', 'b'], False, 0.5 if k == 'space' else 1) for k, d in base for wrap in (False, True)]


def explore_config(ctx, item):
    cfg, depth = item
    h = Harness(*cfg)
    name = f'{cfg[0]}{"x".join(str(d) for d in cfg[1])}{"w" if cfg[2] else "c"}{len(cfg[3])}'
    # a few one-agent configurations are also explored with the model deep-copied in every state
    clone = len(cfg[3]) == 1 and cfg[2] in (False, True) and list(cfg[1]) in ([3, 2], [1.5, 1, 0], [3, 1, 3], [3])
    r = hbfs.explore(ctx, h, name, max_depth=depth, procs=1, clone=clone)
    r['fixpoint_parts'] = 1 if r.get('fixpoint') else 0
    ctx.leg('one_agent' if len(cfg[3]) == 1 else 'two_agents', **r)
    if len(cfg[3]) == 1 and not r.get('fixpoint') and not r.get('aborted'):
        ctx.cap(f'{name}: fixpoint not reached within depth {depth}')


# the cheap legs run once more under the runner's ambient configurations (python -O, other logger levels)
AMBIENT_LEGS = True


def run(ctx):
    items = [(c, 60) for c in configs(ctx.tier)]
    items += [(c, 3 if ctx.tier == 'quick' else 4) for c in two_agent_configs(ctx.tier)]
    items += [(c, 60) for c in odd_flag_configs()]
    # user worlds whose get_dimensions() reports something else than (width, height, depth): moves are governed by the
    # world's real extents
    for wrap in (False, True):
        items += [(('slab', [3, 2, 4], wrap, ['a'], True, 1), 60), (('slab', [2, 0, 3], wrap, ['a'], True, 1), 60),
                  (('flipped', [1.5, 3, 0], wrap, ['a'], True, 0.5), 60)]
    # unusual agents: a nested environment, an agent class with its own __len__, a class-level position component
    for key in ('e', 'g', 'h', 'i', 'y', 'n'):
        for wrap in (False, True):
            items += [(('grid', [3, 2], wrap, [key], True, 1), 60), (('space', [1.5, 1, 0], wrap, [key], True, 0.5), 60),
                      (('discrete', [3, 0, 3], wrap, [key], True, 1), 60)]
    if ctx.small:      # reduced exploration: seven shapes, one agent
        keep = ([3, 3, 0], [0, 3, 3], [3, 3, 3], [1.5, 1.5, 0], [0, 1.5, 1.5], [3], [3, 2])
        items = [it for it in items if len(it[0][3]) == 1 and list(it[0][1]) in keep]
    pairs = [(('grid', [4, 3]), ('grid', [2, 5])), (('space', [3, 3, 0]), ('space', [1.5, 1, 0])),
             (('grid', [2, 2]), ('discrete', [3, 1, 2])), (('discrete', [3, 3, 3]), ('line', [2]))]
    for fst, snd in pairs:
        for wrap in (False, True):
            for install in (True, False):
                case = {'leg': 'replaced_world', 'first': list(fst), 'second': list(snd), 'wrap': wrap,
                        'install': install}
                ctx.traces += 1
                try:
                    ctx.transitions += hbfs._guard(replaced_world_case, case)
                except Violation as v:
                    ctx.report(case, v)
                    return
    ctx.leg('replaced_world', cases=4 * len(pairs), note='second world installed in place of the first / used side by side')
    for gen, fn, name in ((edge_cases, edge_case, 'edge'), (shared_value_cases, shared_value_case, 'shared_value')):
        ne = 0
        for case in gen():
            ctx.traces += 1
            ne += 1
            try:
                ctx.transitions += hbfs._guard(fn, case)
            except Violation as v:
                ctx.report(case, v)
                return
        ctx.leg(name, cases=ne)
    if not ctx.small:
        nt = 0
        for wi in range(len(TWO_MOVERS)):
            for wrap in (False, True):
                for ai, bi in ((0, 1), (1, 2), (2, 3), (3, 0)):
                    for two in (False, True):
                        case = {'leg': 'two_movers', 'world': wi, 'wrap': wrap, 'a': ai, 'b': bi, 'two_worlds': two}
                        ctx.traces += 1
                        try:
                            nt += hbfs._guard(two_movers_case, case)
                        except Violation as v:
                            ctx.report(dict(case, k=getattr(v, 'case_k', 0)), v)
                            return
        ctx.transitions += nt
        ctx.leg('two_movers', schedules=nt, note='E5: two threads move two agents of one world, one preemption at every '
                                                 'library line of the first call')
    # biggest first for load balance
    items.sort(key=lambda it: -(len(it[0][3]) * 10 ** 6 + max(1, it[0][1][0]) * max(1, (it[0][1] + [1, 1])[1]) *
                                max(1, (it[0][1] + [1, 1])[2])))
    par.pmap(ctx, explore_config, items, procs=ctx.procs)
    two = [it for it in items if len(it[0][3]) == 2]
    if two:
        ctx.caps.append(f'two_agents: depth bound {two[0][1]} (all histories up to that depth covered)')


def replay(case):
    if case['leg'] == 'replaced_world':
        hbfs._guard(replaced_world_case, case)
        return
    if case['leg'] == 'edge':
        hbfs._guard(edge_case, case)
        return
    if case['leg'] == 'shared_value':
        hbfs._guard(shared_value_case, case)
        return
    if case['leg'] == 'two_movers':
        hbfs._guard(two_movers_case, case)
        return
    c = case['config']
    hbfs.replay_case(Harness(c['kind'], c['dims'], c['wrap'], c['agents'], c['rich'], c['step']), case)
