"""C18 - decoding follows the documented lifecycle and builds exactly what is listed.

E2: every description in the declared space (number of systems / agent groups, group sizes, priorities, every
subset of optional hooks) is written to a real JSON file and decoded with JsonDecoder - twice, with a different
file decoded in between - while recording fixtures log every lifecycle event together with the model state at
that moment.
"""
import functools
import itertools
import json
import os
import shutil
import sys
import tempfile

from mc.engine import hbfs, par
from mc.engine.report import Violation
from mc.engine.seams import reset_library, ambient_logger

import ECAgent.Core as Core
from ECAgent.Collectors import Collector
from ECAgent.Decode import JsonDecoder, IDecodable

MOD = __name__            # fixtures are resolved through sys.modules[<this module>]
LOG = []

META = {
    'rule': 'full product over description shapes x group sizes x priority assignments x hook subsets (restricted hook '
            'patterns on the largest shape in quick); distinct_nontrivial counts distinct event logs',
    'alphabet': {'systems': '0..2 with priorities from (0,0),(-1,3),(3,0),(0,-1) and non-default frequency/start/end',
                 'agent groups': '0..2 of size 0,1,2', 'hooks': 'pre/post model, pre/post per system, pre/post per group',
                 'module key': 'explicit module name, or omitted (resolution through __main__)',
                 'stale agent_index': 'agent params that already contain an agent_index entry',
                 'variants': 'model already complete while decoding; hook function re-defined between two decodes; a hook '
                             'at every lifecycle point decodes another file with the same decoder instance',
                 'twin module': 'a second module with classes of the same names (FxSystem, FxAgent): first or last '
                                'entry of each list taken from it, the others (and the description decoded in between) '
                                'from the usual module; oracle: module of the class each listed object was built from',
                 'repetition': 'decode(F), decode(other file), decode(F) again in one process'},
    'bounds': {'quick': 'all shapes with systems+groups <= 2 in full; shape (2,2) with 5 hook patterns',
               'thorough': 'shapes (2,1),(1,2),(2,2) with every hook subset as well'},
    'assumptions': ['fixtures log (event, model identity, number of registered systems, number of agents) at each '
                    'lifecycle point; the lifecycle order is judged from that log alone'],
}


# ---------------------------------------------------------------------------------------------------------
# recording fixtures (resolved by name through sys.modules)
# ---------------------------------------------------------------------------------------------------------

def _state(model):
    if model is None:
        return None
    return [id(model), len(model.systems.systems), len(model.environment)]


NESTED = {'decoder': None, 'path': None}


class FxModel(Core.Model, IDecodable):
    @staticmethod
    def decode(params):
        m = ambient_logger(FxModel())
        LOG.append(['model', dict(params), id(m)])
        if params.get('complete'):
            m.complete()          # e.g. a description that restores a finished run
        return m


POPPING = [False]      # decode functions that consume their parameters (dict.pop) instead of reading them


class FxSystem(Core.System, IDecodable):
    @staticmethod
    def decode(params):
        LOG.append(['system', params['id'], _state(params.get('model'))])
        if POPPING[0]:
            return FxSystem(params['id'], params['model'], priority=params.pop('priority', 0),
                            frequency=params.pop('frequency', 1), start=params.pop('start', 0), end=params.pop('end', 10 ** 9))
        return FxSystem(params['id'], params['model'], priority=params['priority'], frequency=params['frequency'],
                        start=params['start'], end=params['end'])

    def execute(self):
        LOG.append(['run', self.id])


class FxCollector(Collector, IDecodable):
    """A listed system that is a collector (other base-class constructor, other defaults)."""
    @staticmethod
    def decode(params):
        LOG.append(['system', params['id'], _state(params.get('model'))])
        return FxCollector(params['id'], params['model'], priority=params['priority'], frequency=params['frequency'],
                           start=params['start'], end=params['end'])

    def collect(self):
        LOG.append(['run', self.id])


LATE_MODULE = 'c18_late_models'
FACADE_MODULE = 'c18_facade'       # a package facade: no attributes of its own, everything served by a module-level __getattr__


def fx_provide(params):
    """A pre-model hook that makes the model class available (a plug-in module registered just in time): the model
    named in the description can only be found once this hook has run."""
    import types
    mod = types.ModuleType(LATE_MODULE)

    class FxLateModel(FxModel):
        @staticmethod
        def decode(params):
            m = ambient_logger(FxLateModel())
            LOG.append(['model', dict(params), id(m)])
            return m
    mod.FxLateModel = FxLateModel
    _provide_members(mod)
    sys.modules[LATE_MODULE] = mod
    fx_hook(params)


def _provide_members(mod):
    class FxLateAgent(FxAgent):
        @staticmethod
        def decode(params):
            LOG.append(['agent', params['group'], params.get('agent_index'), _state(params.get('model'))])
            return FxLateAgent(f"{params['group']}_{params.get('agent_index')}", params['model'])

    class FxLateSystem(FxSystem):
        @staticmethod
        def decode(params):
            LOG.append(['system', params['id'], _state(params.get('model'))])
            return FxLateSystem(params['id'], params['model'], priority=params['priority'], frequency=params['frequency'],
                                start=params['start'], end=params['end'])
    mod.FxLateAgent, mod.FxLateSystem = FxLateAgent, FxLateSystem


def fx_provide_members(params):
    """A per-system / per-group pre hook that makes the class named by the entry available just in time."""
    import types
    mod = types.ModuleType(LATE_MODULE)
    _provide_members(mod)
    sys.modules[LATE_MODULE] = mod
    fx_hook(params)


class FxAgent(Core.Agent, IDecodable):
    @staticmethod
    def decode(params):
        LOG.append(['agent', params['group'], params.get('agent_index'), _state(params.get('model'))])
        return FxAgent(f"{params['group']}_{params.get('agent_index')}", params['model'])


TWIN_MODULE = 'c18_twin'        # a second plug-in package that also calls its classes FxSystem / FxAgent


def _install_twin():
    """Another module with classes of the SAME names as the listed ones: an entry names a class by (module, name)."""
    import types

    class TwSystem(FxSystem):
        @staticmethod
        def decode(params):
            LOG.append(['system', params['id'], _state(params.get('model'))])
            return TwSystem(params['id'], params['model'], priority=params['priority'], frequency=params['frequency'],
                            start=params['start'], end=params['end'])

    class TwAgent(FxAgent):
        @staticmethod
        def decode(params):
            LOG.append(['agent', params['group'], params.get('agent_index'), _state(params.get('model'))])
            return TwAgent(f"{params['group']}_{params.get('agent_index')}", params['model'])

    mod = types.ModuleType(TWIN_MODULE)
    for cls, name in ((TwSystem, 'FxSystem'), (TwAgent, 'FxAgent')):
        cls.__name__ = cls.__qualname__ = name
        cls.__module__ = TWIN_MODULE
        setattr(mod, name, cls)
    sys.modules[TWIN_MODULE] = mod


def _twin_here(case, kind, i, n):
    """Is entry i of n (kind 's' or 'g') taken from the twin module?  twin = 'last': the last entry of each list,
    'first': the first one - the others come from the usual module, under the same class name."""
    t = case.get('twin')
    return bool(t) and n >= 1 and i == (n - 1 if t == 'last' else 0)


def fx_hook(params):
    LOG.append(['hook', params['name'], _state(params.get('model')) if 'model' in params else None])


def fx_hook_main(params):
    LOG.append(['hook', params['name'] + '@main', _state(params.get('model')) if 'model' in params else None])


def fx_hook_v2(params):
    LOG.append(['hook', params['name'] + '#v2', _state(params.get('model')) if 'model' in params else None])


# hooks that are callable without being plain functions: a functools.partial, an instance with __call__, a class (the
# hook is its construction), a bound method, a built-in method of a list-like recorder
class _HookObj:
    def __call__(self, params):
        fx_hook(params)

    def method(self, params):
        fx_hook(params)


class FxHookClass:
    def __init__(self, params):
        fx_hook(params)


def _hook3(prefix, params, suffix=''):
    fx_hook(params)


fx_hook_partial = functools.partial(_hook3, 'p')
fx_hook_obj = _HookObj()
fx_hook_bound = fx_hook_obj.method
HOOK_KINDS = {'partial': 'fx_hook_partial', 'instance': 'fx_hook_obj', 'class': 'FxHookClass', 'bound': 'fx_hook_bound'}


def fx_swap_env(params):
    """An agent-level hook that installs a fresh environment on the model (e.g. a world sized from what was decoded so
    far): agents created afterwards join the environment the model has THEN."""
    fx_hook(params)
    params['model'].set_environment(Core.Environment(params['model']))


def fx_nested(params):
    """A hook that loads a sub-model from another file with the SAME decoder instance, then behaves like fx_hook."""
    keep = len(LOG)
    NESTED['decoder'].decode(NESTED['path'])
    del LOG[keep:]
    fx_hook(params)


# ---------------------------------------------------------------------------------------------------------

_FX_HOOK_V1 = fx_hook

PRIOS = {1: [(0,), (3,), (-1,)], 2: [(0, 0), (-1, 3), (3, 0), (0, -1)], 0: [()]}
HOOK_PATTERNS = ['all', 'none', 'pre', 'post', 'alt']


def build_desc(case):
    use_mod = case.get('module_key', True)

    def ent(d):
        if use_mod:
            d['module'] = FACADE_MODULE if case.get('facade') else MOD
        return d

    nested_at = case.get('nested_at')

    def hook(name):
        if name == 'pre_model' and case.get('late_model'):
            return ent({'func': 'fx_provide', 'params': {'name': name}})
        if name == case.get('late_at'):
            return ent({'func': 'fx_provide_members', 'params': {'name': name}})
        if name == case.get('swap_at'):
            return ent({'func': 'fx_swap_env', 'params': {'name': name}})
        if case.get('hook_kind'):
            return ent({'func': HOOK_KINDS[case['hook_kind']], 'params': {'name': name}})
        if case.get('hooks_in_main'):
            # the classes are listed with their (library) module, the hooks name no module: they are functions of
            # the main script
            return {'func': 'fx_hook', 'params': {'name': name}}
        return ent({'func': 'fx_nested' if name == nested_at else 'fx_hook', 'params': {'name': name}})

    hooks = case['hooks']       # dict name -> bool
    mparams = {'p': 1}
    if case.get('complete_model'):
        mparams['complete'] = True
    desc = {'model': ent({'name': 'FxModel', 'params': mparams}), 'systems': [], 'agents': []}
    if case.get('late_model'):
        desc['model'] = {'name': 'FxLateModel', 'module': LATE_MODULE, 'params': mparams}
    if hooks.get('pre_model'):
        desc['pre_model_decode'] = hook('pre_model')
    if hooks.get('post_model'):
        desc['post_model_decode'] = hook('post_model')
    for i, prio in enumerate(case['prios']):
        s = ent({'name': 'FxCollector' if case.get('sys_kind') == 'collector' else 'FxSystem',
                 'params': {'id': _sid(case, i), 'priority': prio, 'frequency': 1 + i, 'start': 0, 'end': _end(case, i)}})
        if case.get('late_at') == f'pre_s{i}':
            s['name'], s['module'] = 'FxLateSystem', LATE_MODULE
        if _twin_here(case, 's', i, len(case['prios'])):
            s['module'] = TWIN_MODULE
        if hooks.get(f'pre_s{i}'):
            s['pre_system_init'] = hook(f'pre_s{i}')
        if hooks.get(f'post_s{i}'):
            s['post_system_init'] = hook(f'post_s{i}')
        desc['systems'].append(s)
    for g, n in enumerate(case['sizes']):
        a = ent({'name': 'FxAgent', 'number': n, 'params': {'group': _gid(case, g)}})
        if case.get('stale_index'):
            a['params']['agent_index'] = 5      # a stale value in the file must not survive: indices are 0..n-1
        if case.get('late_at') == f'pre_g{g}':
            a['name'], a['module'] = 'FxLateAgent', LATE_MODULE
        if _twin_here(case, 'g', g, len(case['sizes'])):
            a['module'] = TWIN_MODULE
        if hooks.get(f'pre_g{g}'):
            a['pre_agent_init'] = hook(f'pre_g{g}')
        if hooks.get(f'post_g{g}'):
            a['post_agent_init'] = hook(f'post_g{g}')
        desc['agents'].append(a)
    return desc


# identifiers that are awkward inside a JSON file: escaped quotes followed by comment-like text, URLs, backslashes,
# unicode escapes, braces
ODD_SIDS = ['pipe 2" /*hot*/', 'http://host/a//b "x" #1', 'back\\slash "q', 'tab\there {0} // end', '\u00e9t\u00e9 "1" /* c */']
ODD_GIDS = ['herd "A" // north', 'flock /* b */ "', 'x\\"y"//z']
# identifiers that look like references to the process environment (the variable IS set while decoding): plain text
ENV_SIDS = ['price_in_$C18VAR', '${C18VAR}/net', '$HOME', '%C18VAR%', '~user']
ENV_GIDS = ['herd_$C18VAR', '${HOME}']
# ... and identifiers that look like pieces of sloppy JSON (a comma before a closing bracket, inside a STRING)
COMMA_SIDS = ['rows[0,]', 'a,}b', 'x, ]y', '{"k": 1,}', 'tail,\t}']
COMMA_GIDS = ['g[1, ]', 'set{a,}']


def _sid(case, i):
    if case.get('odd_ids') == 'env':
        return ENV_SIDS[i % len(ENV_SIDS)]
    if case.get('odd_ids') == 'comma':
        return COMMA_SIDS[i % len(COMMA_SIDS)]
    return ODD_SIDS[i % len(ODD_SIDS)] if case.get('odd_ids') else f's{i}'


def _gid(case, g):
    if case.get('odd_ids') == 'env':
        return ENV_GIDS[g % len(ENV_GIDS)]
    if case.get('odd_ids') == 'comma':
        return COMMA_GIDS[g % len(COMMA_GIDS)]
    return ODD_GIDS[g % len(ODD_GIDS)] if case.get('odd_ids') else f'g{g}'


def _end(case, i):
    return 0 if case.get('end0') and i == 0 else 7 + i


def expected_log(case, mid, v2=False):
    """The documented lifecycle, with the model state (identity, #systems, #agents) at each point."""
    out = _expected_log(case, mid)
    if v2:
        for e in out:
            if e[0] == 'hook':
                e[1] += '#v2'
    if case.get('hooks_in_main'):
        for e in out:
            if e[0] == 'hook':
                e[1] += '@main'
    return out


def _expected_log(case, mid):
    hooks = case['hooks']
    out = []
    if hooks.get('pre_model'):
        out.append(['hook', 'pre_model', None])
    out.append(['model', {'p': 1, 'complete': True} if case.get('complete_model') else {'p': 1}, mid])
    for i, prio in enumerate(case['prios']):
        if hooks.get(f'pre_s{i}'):
            out.append(['hook', f'pre_s{i}', [mid, i, 0]])
        out.append(['system', _sid(case, i), [mid, i, 0]])
        if hooks.get(f'post_s{i}'):
            out.append(['hook', f'post_s{i}', [mid, i + 1, 0]])
    ns = len(case['prios'])
    na = 0
    for g, n in enumerate(case['sizes']):
        if hooks.get(f'pre_g{g}'):
            out.append(['hook', f'pre_g{g}', [mid, ns, na]])
            if case.get('swap_at') == f'pre_g{g}':
                na = 0          # the hook installed a fresh, empty environment
        for idx in range(n):
            out.append(['agent', _gid(case, g), idx, [mid, ns, na]])
            na += 1
        if hooks.get(f'post_g{g}'):
            out.append(['hook', f'post_g{g}', [mid, ns, na]])
            if case.get('swap_at') == f'post_g{g}':
                na = 0
    if hooks.get('post_model'):
        out.append(['hook', 'post_model', None])
    return out


def decode_case(case):
    reset_library()
    POPPING[0] = bool(case.get('popping'))
    os.environ['C18VAR'] = 'EXPANDED'
    main = sys.modules['__main__']
    me = sys.modules[MOD]
    me.fx_hook = _FX_HOOK_V1
    for name in ('FxModel', 'FxSystem', 'FxCollector', 'FxAgent', 'fx_hook', 'fx_nested', 'fx_provide', 'fx_swap_env',
                 'fx_provide_members') + tuple(HOOK_KINDS.values()):
        setattr(main, name, getattr(me, name))     # resolution target when the description omits "module"
    if case.get('hooks_in_main'):
        main.fx_hook = fx_hook_main                # the main script's own function of that name
    if case.get('facade'):
        import types
        facade = types.ModuleType(FACADE_MODULE)
        facade.__getattr__ = lambda name: getattr(sys.modules[MOD], name)      # PEP 562 lazy export
        sys.modules[FACADE_MODULE] = facade
    if case.get('twin'):
        _install_twin()
    tmp = tempfile.mkdtemp(prefix='c18-')
    cwd0 = os.getcwd()
    try:
        f1 = os.path.join(tmp, 'desc.json')
        f0 = os.path.join(tmp, 'other.json')
        if case.get('relative'):
            # the descriptions are named relative to the working directory (the script sits next to a models/ folder)
            os.makedirs(os.path.join(tmp, 'models', 'deep'))
            os.chdir(tmp)
            f1, f0 = os.path.join('models', 'desc.json'), os.path.join('models', 'deep', 'other.json')
        cwd1 = os.getcwd()
        with open(f1, 'w') as f:
            d1 = build_desc(case)
            if case.get('key_order') == 'sorted':
                json.dump(d1, f, sort_keys=True)          # "agents" before "model" before "systems" in the file
            elif case.get('key_order') == 'reversed':
                json.dump(dict(reversed(list(d1.items()))), f)
            else:
                json.dump(d1, f)
        other = {'leg': 'x', 'prios': [3], 'sizes': [1], 'hooks': {'pre_model': True, 'post_s0': True, 'pre_g0': True}}
        with open(f0, 'w') as f:
            json.dump(build_desc(other), f)
        dec = JsonDecoder()
        NESTED['decoder'], NESTED['path'] = dec, f0
        logs, models = [], []
        for nth, (path, c) in enumerate(((f1, case), (f0, other), (f1, case))):
            del LOG[:]
            v2 = bool(case.get('rebind')) and nth == 2
            if nth == 2 and case.get('imposters'):
                # classes with the same name and module as the listed ones, created later (a nested class, a class
                # factory, a test double) but NOT bound to the module attribute the description names
                imposters = [type('FxAgent', (FxAgent,), {'__module__': MOD, 'decode': staticmethod(_bad_decode)}),
                             type('FxSystem', (FxSystem,), {'__module__': MOD, 'decode': staticmethod(_bad_decode)}),
                             type('FxModel', (FxModel,), {'__module__': MOD, 'decode': staticmethod(_bad_decode)})]
            if nth == 2 and case.get('rewrite'):
                # the SAME path now holds the other description, with the file's old modification time
                st = os.stat(f1)
                with open(f0) as src, open(f1, 'w') as dst:
                    dst.write(src.read())
                os.utime(f1, ns=(st.st_atime_ns, st.st_mtime_ns))
                c = other
            if v2:      # the hook function is re-defined between two decodes (same module object, same name)
                me.fx_hook = fx_hook_v2
                main.fx_hook = fx_hook_v2
            sys.modules.pop(LATE_MODULE, None)      # a just-in-time module is provided anew by every decode's hook
            m = dec.decode(path)
            if os.getcwd() != cwd1:
                raise Violation('decoding a description changed the working directory of the process', expected='unchanged',
                                observed='the description\'s directory' if os.getcwd() == os.path.dirname(os.path.abspath(
                                    os.path.join(cwd1, path))) else 'another directory')
            log = [list(e) for e in LOG]
            mids = [e[2] for e in log if e[0] == 'model']
            if len(mids) != 1:
                raise Violation('the model was decoded a number of times other than once', expected=1,
                                observed=len(mids))
            if id(m) != mids[0] or not isinstance(m, FxModel):
                raise Violation('decode() did not return the model built by the model class\'s decode')
            exp = expected_log(c, id(m), v2)
            if log != exp:
                raise Violation(f'lifecycle event log differs from the documented order ({_where(log, exp)})',
                                expected=_strip(exp), observed=_strip(log))
            check_model(m, c)
            logs.append(_strip(log))
            models.append(m)
        if logs[0] != logs[2] and not case.get('rebind') and not case.get('rewrite'):
            raise Violation('decoding the same file a second time gave a different lifecycle', expected=logs[0],
                            observed=logs[2])
        if models[0] is models[2] or models[0] is models[1]:
            raise Violation('two decodes returned the same model object')
        check_model(models[0], case)       # the first model is untouched by the later decodes
        if case.get('rewrite'):
            return json.dumps(logs[2])
        # one timestep: systems run in C01 order with their declared windows
        del LOG[:]
        models[2].execute()
        ran = [e[1] for e in LOG if e[0] == 'run']
        order = sorted(range(len(case['prios'])), key=lambda i: (-case['prios'][i], i))
        if case.get('complete_model'):
            order = []
        if ran != [_sid(case, i) for i in order]:
            raise Violation('decoded systems do not run in priority / listing order', expected=[_sid(case, i) for i in order],
                            observed=ran)
        return json.dumps(logs[0])
    finally:
        os.chdir(cwd0)
        me.fx_hook = _FX_HOOK_V1
        shutil.rmtree(tmp, ignore_errors=True)


def _bad_decode(params):
    LOG.append(['imposter'])
    raise AssertionError('a class that is not the one named in the description was asked to decode')


def check_model(m, case):
    want_sys = [_sid(case, i) for i in range(len(case['prios']))]
    if list(m.systems.systems) != want_sys:
        raise Violation('registered systems differ from the listed ones', expected=want_sys,
                        observed=list(m.systems.systems))
    for i, prio in enumerate(case['prios']):
        s = m.systems[_sid(case, i)]
        got = [s.priority, s.frequency, s.start, s.end, s.model is m]
        if got != [prio, 1 + i, 0, _end(case, i), True]:
            raise Violation(f'system s{i} does not carry its declared scheduling',
                            expected=[prio, 1 + i, 0, _end(case, i), True], observed=got)
    first = 0
    if case.get('swap_at'):      # only the groups created after the environment was replaced live in the model's environment
        first = int(case['swap_at'].split('_g')[1]) + (1 if case['swap_at'].startswith('post') else 0)
    want_agents = [f'{_gid(case, g)}_{i}' for g, n in enumerate(case['sizes']) for i in range(n) if g >= first]
    got_agents = [a.id for a in m.environment]
    if got_agents != want_agents:
        raise Violation('environment does not hold exactly the listed agents in creation order', expected=want_agents,
                        observed=got_agents)
    if any(a.model is not m for a in m.environment):
        raise Violation('an agent was built with another model')
    if case.get('twin') or case.get('leg') == 'x':
        ns = len(case['prios'])
        want = [TWIN_MODULE if _twin_here(case, 's', i, ns) else MOD for i in range(ns)]
        got = [type(m.systems[_sid(case, i)]).__module__ for i in range(ns)]
        if got != want:
            raise Violation('a listed system was built from a class of another module than the one its entry names',
                            expected=want, observed=got)
        ng = len(case['sizes'])
        want = [TWIN_MODULE if _twin_here(case, 'g', g, ng) else MOD for g, n in enumerate(case['sizes'])
                for _ in range(n) if g >= first]
        got = [type(a).__module__ for a in m.environment]
        if got != want:
            raise Violation('a listed agent was built from a class of another module than the one its entry names',
                            expected=want, observed=got)


def _strip(log):
    """Replace model identities by a flag so that logs of different decodes can be compared / printed."""
    out = []
    for e in log:
        e = list(e)
        if e[0] == 'model':
            e[2] = 'M'
        elif isinstance(e[-1], list):
            e[-1] = ['M'] + e[-1][1:]
        out.append(e)
    return out


def _where(log, exp):
    for i, (a, b) in enumerate(zip(log, exp)):
        if a != b:
            return f'first difference at event {i}'
    return f'{len(log)} events, expected {len(exp)}'


def hook_names(ns, ng):
    return ['pre_model', 'post_model'] + [f'{p}_s{i}' for i in range(ns) for p in ('pre', 'post')] + \
           [f'{p}_g{g}' for g in range(ng) for p in ('pre', 'post')]


def hook_sets(ns, ng, full):
    names = hook_names(ns, ng)
    if full:
        for bits in itertools.product((False, True), repeat=len(names)):
            yield dict(zip(names, bits))
    else:
        for pat in HOOK_PATTERNS:
            yield {n: (pat == 'all' or (pat == 'pre' and n.startswith('pre')) or (pat == 'post' and n.startswith('post'))
                       or (pat == 'alt' and i % 2 == 0)) for i, n in enumerate(names)}


def cases(tier):
    out = []
    for ns in range(3):
        for ng in range(3):
            full = (ns + ng <= 2) or tier == 'thorough'
            for prios in PRIOS[ns]:
                for sizes in itertools.product((0, 1, 2), repeat=ng):
                    for hooks in hook_sets(ns, ng, full):
                        out.append({'leg': 'decode', 'prios': list(prios), 'sizes': list(sizes), 'hooks': hooks,
                                    'module_key': True})
    # resolution through __main__ when "module" is omitted: one full-hook description per shape
    for ns in range(3):
        for ng in range(3):
            out.append({'leg': 'decode', 'prios': list(PRIOS[ns][-1]), 'sizes': [2, 1][:ng],
                        'hooks': {n: True for n in hook_names(ns, ng)}, 'module_key': False})
    for ns in range(3):
        for ng in (1, 2):
            for sizes in itertools.product((1, 2), repeat=ng):
                out.append({'leg': 'decode', 'prios': list(PRIOS[ns][0]), 'sizes': list(sizes),
                            'hooks': {n: True for n in hook_names(ns, ng)}, 'module_key': True, 'stale_index': True})
    # variants on every shape with all hooks present: the model is already complete while it is decoded; the hook
    # function is re-defined between two decodes; a hook decodes another file with the same decoder (nested load)
    for ns in range(3):
        for ng in range(3):
            full = {n: True for n in hook_names(ns, ng)}
            base = {'leg': 'decode', 'prios': list(PRIOS[ns][-1]), 'sizes': [2, 1][:ng], 'hooks': full, 'module_key': True}
            out.append(dict(base, complete_model=True))
            out.append(dict(base, rebind=True))
            out.append(dict(base, rebind=True, module_key=False))
            for at in hook_names(ns, ng):
                out.append(dict(base, nested_at=at))
            out.append(dict(base, key_order='sorted'))
            out.append(dict(base, key_order='reversed'))
            out.append(dict(base, imposters=True))
            out.append(dict(base, rewrite=True))
            for at in hook_names(ns, ng):
                if '_g' in at:
                    out.append(dict(base, swap_at=at))
            for at in hook_names(ns, ng):
                if at.startswith('pre_s') or at.startswith('pre_g'):
                    out.append(dict(base, late_at=at))
            out.append(dict(base, hooks_in_main=True))
            out.append(dict(base, facade=True))
            out.append(dict(base, popping=True))
            for hk in HOOK_KINDS:
                out.append(dict(base, hook_kind=hk))
                out.append(dict(base, hook_kind=hk, module_key=False))
            out.append(dict(base, odd_ids=True))
            out.append(dict(base, odd_ids=True, key_order='sorted'))
            out.append(dict(base, odd_ids='env'))
            out.append(dict(base, odd_ids='comma'))
            out.append(dict(base, late_model=True))
            out.append(dict(base, relative=True))
            out.append(dict(base, relative=True, rewrite=True))
            out.append(dict(base, late_model=True, hooks={'pre_model': True}))
    # a large description: 60 systems, a group of 1100 agents between an empty group and a small one
    big_prios = [(i * 7) % 5 - 2 for i in range(60)]
    out.append({'leg': 'decode', 'prios': big_prios, 'sizes': [0, 1100, 3], 'module_key': True,
                'hooks': {n: True for n in hook_names(60, 3)}})
    out.append({'leg': 'decode', 'prios': big_prios, 'sizes': [0, 1100, 3], 'module_key': False,
                'hooks': {n: (i % 3 == 0) for i, n in enumerate(hook_names(60, 3))}})
    # listed systems that are collectors (incl. priority 0 and an end of 0: values that are falsy), all hooks / none
    for ns in (1, 2):
        for prios in PRIOS[ns]:
            for ng in (0, 1):
                for hk in (True, False):
                    for end0 in (False, True):
                        out.append({'leg': 'decode', 'prios': list(prios), 'sizes': [2][:ng], 'module_key': True,
                                    'hooks': {n: hk for n in hook_names(ns, ng)}, 'sys_kind': 'collector', 'end0': end0})
                        if end0:
                            out.append({'leg': 'decode', 'prios': list(prios), 'sizes': [2][:ng], 'module_key': True,
                                        'hooks': {n: hk for n in hook_names(ns, ng)}, 'end0': True})
    # two plug-in modules that use the same class names: entries of one description (and of the description decoded in
    # between) name their class by module AND name
    for twin in ('first', 'last'):
        for prios in ((0,), (0, 0), (3, 0), (-1, 3)):
            for sizes in ([1], [2, 1], [0, 2]):
                for pat in (True, False):
                    out.append({'leg': 'decode', 'prios': list(prios), 'sizes': list(sizes), 'module_key': True, 'twin': twin,
                                'hooks': {n: pat for n in hook_names(len(prios), len(sizes))}})
    return out


def chunk_fn(ctx, chunk):
    for case in chunk:
        ctx.traces += 3
        ctx.states += 1
        ctx.transitions += 3
        try:
            ctx.outcome(hbfs._guard(decode_case, case))
        except Violation as v:
            ctx.report(case, v)
            if ctx.full():
                return


# the cheap legs run once more under the runner's ambient configurations (python -O, other logger levels)
AMBIENT_LEGS = True


def run(ctx):
    cs = cases(ctx.tier)
    size = max(1, len(cs) // (ctx.procs * 4))
    par.pmap(ctx, chunk_fn, [cs[i:i + size] for i in range(0, len(cs), size)], procs=ctx.procs)
    ctx.leg('decode', descriptions=len(cs), decodes=3 * len(cs))
    ctx.sample(cs[len(cs) // 2])
    ctx.sample(cs[-1])


def replay(case):
    hbfs._guard(decode_case, case)
