"""C16 - grid search scores every combination correctly and returns the true best.

E2: every score table over a small value set (huge, negative, tied, zero) x every scoring mode x every grid
shape with <= 6 (combination, repetition) cells, run serially; E3: a subset of tables chosen for ties, middle
optimum and all-huge scores under every SchedPool outcome; exact-arithmetic reference.
"""
import itertools
import random

import numpy as np
from fractions import Fraction as Fr

from mc.engine import hbfs, par, sched
from mc.engine.report import Violation
from mc.engine.seams import reset_library, ambient_logger

import ECAgent.Core as Core
import ECAgent.Batching as Batching
from ECAgent.Batching import ScoreMode

BIG = 2 ** 70
VALS = {'quick': [-BIG, 0, 1, BIG], 'thorough': [-BIG, -3, 0, 1, BIG, 2 * BIG]}
FVALS = [-3.0, 0.0, 0.5, 1.0]
FBIG = [1e9 + 1, 1e9 + 2, 1e9 + 6]
FHUGE = [1e308, 1.5e308]                  # finite scores whose sums overflow to inf (one sign only: a running float
#                                           sum of mixed signs may overflow on the way although the exact sum is finite)        # large magnitude, small spread: exposes cancellation in one-pass formulas
SHAPES = [('1', {'a': [1]}, 1), ('2', {'a': [1, 2]}, 2), ('3', {'a': [1, 2, 3]}, 3), ('2x2', {'a': [1, 2], 'b': [5, 6]}, 4)]

# grids that list a value twice / values equal across types (two combinations that compare equal stay two combinations)
EXTRA_SHAPES = [('dup', {'a': [3, 3, 1]}, 3), ('eqtype', {'a': [7, 7.0], 'b': [1]}, 2), ('dup2', {'a': [2, 5, 5]}, 3),
                # grids beyond any per-worker block threshold, sizes that no small process count divides
                ('big129', {'a': list(range(1, 130))}, 129), ('big143', {'a': list(range(1, 144))}, 143),
                ('big211', {'a': list(range(1, 212))}, 211)]

META = {
    'rule': 'serial leg: every assignment of a value to every (combination, repetition) cell x every mode x every shape '
            'with <= 6 cells; schedule leg: 30 selected tables x every SchedPool outcome; distinct_nontrivial counts '
            'distinct (shape, mode, table, best index) observations',
    'alphabet': {'values': {'quick': ['-2^70', 0, 1, '2^70'], 'thorough': ['-2^70', -3, 0, 1, '2^70', '2^71'],
                            'float leg': FVALS, 'big float leg': FBIG, 'overflow leg': FHUGE},
                 'parameter sources': ['list', 'generator', 'map', 'iterator', 'range', 'tuple'],
                 'shapes (combinations)': [s[0] for s in SHAPES], 'repetitions': '1..3 with combinations x repetitions '
                 '<= 6 (>= 2 for the variance modes)', 'modes': [m.name for m in ScoreMode],
                 'schedules': 'all outcomes for n <= 4 combinations, p in 2,3',
                 'call sequences': 'three consecutive searches in one process on the real multiprocessing.Pool with the '
                                   'score table changed in between, process counts (2,2,2),(2,3,2),(1,2,1),(3,3,1)'},
    'bounds': {'quick': '4 values', 'thorough': '6 values incl. two distinct magnitudes above sys.maxsize'},
    'assumptions': ['a score must equal the exact rational aggregate if representable, else its correctly rounded '
                    'float (statistics.mean / variance return floats for non-integral results)',
                    'the best combination is judged on the scores as returned (first minimum / maximum), so float '
                    'rounding cannot create a disagreement between reference and implementation',
                    'parameter names records and score are reserved by the documented result format and not used',
                    'the table score function tells repetitions apart by counting evaluations per process: in the enumerated-'
                    'schedule legs all repetitions of a combination are assumed to run in one worker task (the legs with more '
                    'workers than combinations use scores that depend on the parameters only)'],
}


class LegacySeq:
    """A sequence in the old protocol: indexable and sized, no __iter__."""

    def __init__(self, items):
        self._items = list(items)

    def __len__(self):
        return len(self._items)

    def __getitem__(self, i):
        return self._items[i]


class GModel(Core.Model):
    def __init__(self, a, b=0):
        super().__init__(seed=1)
        ambient_logger(self)
        self.a, self.b = a, b
        self.complete()


class TableScore:
    """score_func: the r-th evaluation of combination (a, b) returns table[(a, b)][r]."""

    def __init__(self, table, cyclic=0):
        self.table = table
        self.counts = {}
        self.cyclic = cyclic

    def __call__(self, model):
        key = (model.a, model.b)
        r = self.counts.get(key, 0)
        self.counts[key] = r + 1
        return self.table[key][r % self.cyclic if self.cyclic else r]


def combos(params):
    a_vals = params['a']
    b_vals = params.get('b', [0])
    return [(a, b) for a in a_vals for b in b_vals]


def exact(row, mode):
    r = [Fr(v) for v in row]
    m = int(mode)
    if m == 0:
        return min(r)
    if m == 1:
        return max(r)
    if m in (2, 3):
        return sum(r) / len(r)
    if m in (4, 5):
        return sum(r)
    mu = sum(r) / len(r)
    return sum((x - mu) ** 2 for x in r) / (len(r) - 1)


def same_number(score, ex):
    if isinstance(score, np.generic):
        score = score.item()
    if isinstance(score, bool) or not isinstance(score, (int, float, Fr)):
        return False
    if isinstance(score, float) and (score != score or score in (float('inf'), float('-inf'))):
        # an aggregate beyond the float range: the correctly rounded result is +-inf (nan never)
        try:
            float(ex)
        except OverflowError:
            return score == (float('inf') if ex > 0 else float('-inf'))
        return abs(ex) > Fr(17976931348623157) * 10 ** 292 and score == (float('inf') if ex > 0 else float('-inf'))
    if Fr(score) == ex:
        return True
    try:
        return isinstance(score, float) and score == ex.numerator / ex.denominator
    except OverflowError:
        return False


def run_search(case, cache=None):
    reset_library()
    shape = {s[0]: s for s in SHAPES + EXTRA_SHAPES}[case['shape']]
    params = {k: list(v) for k, v in shape[1].items()}
    cs = combos(params)
    given = dict(params)
    src = case.get('source')
    if src:
        vals = list(params['a'])
        given['a'] = {'generator': (v for v in vals), 'map': map(int, vals), 'iter': iter(vals),
                      'range': range(1, len(vals) + 1), 'tuple': tuple(vals), 'legacy': LegacySeq(vals)}[src]
    reps, mode = case['reps'], ScoreMode(case['mode'])
    flat = case['table']
    conv = float if case.get('float') else getattr(np, case['np']) if case.get('np') else (lambda v: v)
    table = {c: [conv(flat[i * reps + r]) for r in range(reps)] for i, c in enumerate(cs)}
    procs = case.get('procs', 1)
    oc = case.get('outcome')
    if procs != 1:
        sched.install(Batching, (tuple(tuple(w) for w in oc[0]), tuple(oc[1])) if oc else None,
                      cache or sched.WorkerCache())
    try:
        best, results = Batching.grid_search(GModel, given, TableScore(table, reps if case.get('cyclic') else 0),
                                             processes=procs, repetitions=reps, mode=mode)
    finally:
        if procs != 1:
            sched.uninstall(Batching)
    what = f'shape {case["shape"]} repetitions {reps} mode {mode.name} table {table} processes {procs} schedule {oc}'
    if not isinstance(results, list) or len(results) != len(cs):
        raise Violation(f'{what}: number of results differs from the number of combinations', expected=len(cs),
                        observed=repr(results)[:300])
    scores = []
    for i, (c, res) in enumerate(zip(cs, results)):
        want_keys = set(params) | {'records', 'score'}
        if not isinstance(res, dict) or set(res) != want_keys:
            raise Violation(f'{what}: result {i} has keys {sorted(res) if isinstance(res, dict) else res}',
                            expected=sorted(want_keys))
        if res['a'] != c[0] or type(res['a']) is not type(c[0]) or ('b' in params and res['b'] != c[1]):
            raise Violation(f'{what}: result {i} does not carry its own unmodified parameters', expected=list(c),
                            observed=[res.get('a'), res.get('b')])
        if list(res['records']) != table[c] or any(type(x) is not type(y) for x, y in zip(res['records'], table[c])):
            raise Violation(f'{what}: result {i} records differ from the individual scores', expected=table[c],
                            observed=res['records'])
        ex = exact(table[c], mode)
        if int(mode) in (0, 1, 4, 5) and all(type(v) is int for v in table[c]) and \
                (type(res['score']) is not int or res['score'] != ex):
            # minimum, maximum and sum of Python ints are exact Python ints (no rounding is involved anywhere)
            raise Violation(f'{what}: result {i} aggregate of all-int records is not their exact {mode.name}',
                            expected=str(ex), observed=repr(res['score']))
        if not same_number(res['score'], ex):
            raise Violation(f'{what}: result {i} aggregate differs from the exact {mode.name}', expected=str(ex),
                            observed=repr(res['score']))
        scores.append(res['score'])
    is_min = int(mode) % 2 == 0
    target = min(scores) if is_min else max(scores)
    first = scores.index(target)
    got_i = next((i for i, r in enumerate(results) if r is best), None)
    if got_i is None:
        got_i = next((i for i, r in enumerate(results) if r == best), None)
    if got_i != first:
        raise Violation(f'{what}: best is combination {got_i}, the first {"minimum" if is_min else "maximum"} is '
                        f'combination {first} (scores {scores})', expected=first, observed=got_i)
    return (first, repr(results))


class StepModel(Core.Model):
    """Runs until the step limit (or its own lifetime); the score is the number of timesteps it was advanced."""

    def __init__(self, a, life=10 ** 6):
        super().__init__(seed=1)
        ambient_logger(self)
        self.a = a
        life_ = life

        class Stop(Core.System):
            def execute(self):
                if self.model.systems.timestep + 1 >= life_ + a:
                    self.model.complete()
        self.systems.add_system(Stop('stop', self))


class HoursStepModel(StepModel):
    """The same model with an attribute of its own called timestep (the length of a step, in hours)."""
    timestep = 0.25


def steps_score(model):
    return model.systems.timestep


def limit_case(case):
    """Searches over models that run until the step limit: every process count honours max_timesteps."""
    reset_library()
    limit, life, procs = case['limit'], case['life'], case['procs']
    oc = case.get('outcome')
    if procs != 1:
        sched.install(Batching, (tuple(tuple(w) for w in oc[0]), tuple(oc[1])) if oc else None, sched.WorkerCache())
    try:
        best, results = Batching.grid_search(HoursStepModel if case.get('dt') else StepModel, {'a': [1, 2, 3], 'life': life},
                                             steps_score, processes=procs,
                                             max_timesteps=limit, repetitions=2, mode=ScoreMode.MAX_SUM)
    finally:
        if procs != 1:
            sched.uninstall(Batching)
    exp = [[min(limit, life + a)] * 2 for a in (1, 2, 3)]
    got = [r['records'] for r in results]
    if got != exp:
        raise Violation(f'grid_search with max_timesteps={limit} (models would run {life}+a steps), processes={procs}, '
                        f'schedule {oc}: a model was advanced past the limit or stopped early', expected=exp, observed=got)
    first = [sum(r) for r in exp].index(max(sum(r) for r in exp))
    if best != results[first]:
        raise Violation('wrong best for the step-limited search', expected=first)
    return tuple(map(tuple, got))


# parameter names that are also names of variables, keyword arguments or bookkeeping keys inside the batching code
# (`records` and `score` are reserved by the documented result format and stay out)
ODD_NAMES = ['index', 'timestep', 'i', 'id', 'run', 'mode', 'data', 'params', 'model', 'seed', 'rep', 'processes',
             'max_timesteps', 'repetitions', 'kwargs', 'args', 'cls', 'model_cls', 'score_func', 'parameters', 'result',
             'results', 'best', 'key', 'value', 'name']


class KwModel(Core.Model):
    """Takes whatever parameters the grid declares and keeps each as an attribute of the same name (a model whose
    integration step is called `timestep`, whose replicate number is called `index`, ...); never finishes by itself."""

    def __init__(self, **kw):
        super().__init__()
        ambient_logger(self)
        self.kw = dict(kw)
        for k, v in kw.items():
            setattr(self, k, v)
        self.systems.add_system(Overrun('overrun', self))


class Overrun(Core.System):
    """The searches over KwModel use max_timesteps=3: a model still being stepped at clock 8 has been advanced past the
    limit (and would otherwise be stepped forever: it never finishes by itself)."""

    def execute(self):
        if self.model.systems.timestep >= 8:
            raise Violation('a model was advanced past max_timesteps=3 (clock 8 reached)', expected=3,
                            observed=self.model.systems.timestep)


def kw_score(model):
    return sum((i + 1) * v for i, (k, v) in enumerate(sorted(model.kw.items()))) + 1000 * model.systems.timestep


class Tick(Core.System):
    def execute(self):
        type(self.model).tally += self.model.a
        self.model.draws.append(random.random())
        if self.model.systems.timestep >= 2:
            self.model.complete()


class TallyModel(Core.Model):
    """The constructor resets process-wide state (a class-level tally, the global generator) that the run and the score
    then use - every repetition starts from what its own constructor set up."""
    tally = 0

    def __init__(self, a):
        super().__init__(seed=a)
        ambient_logger(self)
        self.a = a
        self.draws = []
        TallyModel.tally = 0
        random.seed(a)
        self.systems.add_system(Tick('tick', self))


def tally_score(model):
    return TallyModel.tally * 1000 + int(sum(model.draws) * 100)


class InnerModel(Core.Model):
    def __init__(self, k):
        super().__init__(seed=1)
        self.k = k
        self.complete()


def inner_score(model):
    return 7 + model.k


def nested_score(model):
    """The score of an outer combination is itself obtained by a small search (re-entrant use of the search)."""
    best, results = Batching.grid_search(InnerModel, {'k': [2, 1, 3]}, inner_score, repetitions=1, mode=ScoreMode.MIN)
    return 100 * model.a + best['score']


class CountModel(Core.Model):
    """Every construction takes the next number: a repetition that is not really run is one number short."""
    BUILT = [0]

    def __init__(self, seed=None, a=0):
        super().__init__(seed=seed)
        ambient_logger(self)
        CountModel.BUILT[0] += 1
        self.index = CountModel.BUILT[0]
        self.complete()


def count_score(model):
    return model.index


def seeded_reps_case(case):
    """A grid that fixes the model's seed (a parameter named seed) searched with several repetitions, one process: every
    repetition builds, runs and scores its own model."""
    reset_library()
    CountModel.BUILT[0] = 0
    params = {case['name']: [3, 1, 2]} if case['name'] != 'both' else {'seed': [3, 1], 'a': [5, 6]}
    reps = case['reps']
    best, results = Batching.grid_search(CountModel, params, count_score, repetitions=reps, mode=ScoreMode.MAX_SUM)
    exp = [[i * reps + r + 1 for r in range(reps)] for i in range(len(results))]
    got = [list(r['records']) for r in results]
    if got != exp or CountModel.BUILT[0] != reps * len(results):
        raise Violation(f'search over {params} with {reps} repetitions: the r-th repetition of the i-th combination is the '
                        f'(i * repetitions + r + 1)-th model built', expected=exp, observed=got)
    if best is not results[-1]:
        raise Violation(f'search over {params}: best (MAX_SUM) is not the last combination')
    return len(results) * reps


class PercentGrid(dict):
    """A grid kept as a dict subclass: stores percentages and hands out fractions, iterates its keys alphabetically.  What
    it hands out through grid[key] for the keys it iterates over IS the grid."""

    def __getitem__(self, key):
        values = super().__getitem__(key)
        return [v / 100 for v in values] if isinstance(values, list) else values

    def __iter__(self):
        return iter(sorted(super().keys()))


class SortModel(Core.Model):
    """Normalises the list it is given IN PLACE (sorts it) - as far as the library is concerned, the caller's business."""

    def __init__(self, a=(), b=0):
        super().__init__(seed=1)
        ambient_logger(self)
        a.sort()
        self.first, self.b = a[0], b
        self.complete()


def first_score(model):
    return 10 * model.first + model.b


def mapping_case(case):
    """(1) A grid handed over as a dict subclass gives the outcome of the equivalent plain dict.  (2) A model that changes
    a list-valued parameter in place: whatever the reported parameters then show, they show the same for every process
    count and schedule."""
    reset_library()
    procs, oc = case['procs'], case.get('outcome')

    def search(cls, grid, score, **kw):
        if procs != 1:
            sched.install(Batching, (tuple(tuple(w) for w in oc[0]), tuple(oc[1])) if oc else None, sched.WorkerCache())
        try:
            return Batching.grid_search(cls, grid, score, processes=procs, **kw)
        finally:
            if procs != 1:
                sched.uninstall(Batching)
    if case['what'] == 'percent':
        grid = PercentGrid()
        grid['uptake'], grid['size'], grid['decay'] = [10, 50, 90], 2, [25, 75]
        plain = {k: grid[k] for k in grid}
        want = Batching.grid_search(KwModel, plain, kw_score, max_timesteps=3, repetitions=2, mode=ScoreMode(case['mode']))
        got = search(KwModel, grid, kw_score, max_timesteps=3, repetitions=2, mode=ScoreMode(case['mode']))
        what = 'a grid given as a dict subclass (converted values, alphabetical keys) against the equivalent plain dict'
    else:
        def grid():
            return {'a': [[3, 1, 2], [9, 4], [5]], 'b': [1, 2]}
        want = Batching.grid_search(SortModel, grid(), first_score, repetitions=2, mode=ScoreMode(case['mode']))
        got = search(SortModel, grid(), first_score, repetitions=2, mode=ScoreMode(case['mode']))
        what = 'a model that sorts its list-valued parameter in place: one process against the same search'
    if got[1] != want[1] or got[1].index(got[0]) != want[1].index(want[0]) or \
            [list(r) for r in got[1]] != [list(r) for r in want[1]]:
        raise Violation(f'{what}, processes {procs}, schedule {oc}', expected=repr(want[1])[:500], observed=repr(got[1])[:500])
    return len(got[1])


def mapping_cases():
    for what in ('percent', 'sorting'):
        for mode in (0, 5):
            yield {'leg': 'mapping', 'what': what, 'mode': mode, 'procs': 1}
            for oc in [None] + [[list(map(list, o[0])), list(o[1])] for o in list(sched.outcomes(6, 2))[:4]]:
                yield {'leg': 'mapping', 'what': what, 'mode': mode, 'procs': 2, 'outcome': oc}


class ThreadModelA(Core.Model):
    def __init__(self, a=0):
        super().__init__(seed=1)
        self.value = 10 * a
        self.complete()


class ThreadModelB(Core.Model):
    def __init__(self, k=0, j=0):
        super().__init__(seed=2)
        self.value = -(100 * k + j)
        self.complete()


def value_score(model):
    return model.value


def neg_score(model):
    return -model.value + 0.5


def two_searches_case(case):
    """Two serial searches by two threads (two studies in one process), the second cutting into the first at every line of
    library code it executes (E5): each search evaluates its own model class with its own scoring, repetitions and mode."""
    from mc.engine import preempt

    small = bool(case.get('two_cuts'))        # (the two-preemption product is explored on a smaller pair of searches)
    grid_a = {'a': [3, 1]} if small else {'a': [3, 1, 2]}
    grid_b = {'k': [1, 2], 'j': 5} if small else {'k': [1, 2], 'j': [5, 6]}
    reps_a, reps_b = (1, 2) if small else (2, 3)

    def make():
        reset_library()
        fa = lambda: Batching.grid_search(ThreadModelA, dict(grid_a), value_score, repetitions=reps_a, mode=ScoreMode.MIN)      # noqa
        fb = lambda: Batching.grid_search(ThreadModelB, dict(grid_b), neg_score, repetitions=reps_b,                             # noqa
                                          mode=ScoreMode.MAX_SUM)
        return (fa, fb) if case['first'] == 'a' else (fb, fa)
    exp_a = ([({'a': a}, [10 * a] * reps_a, 10 * a) for a in grid_a['a']], 1)
    js = grid_b['j'] if isinstance(grid_b['j'], list) else [grid_b['j']]
    exp_b = ([({'k': k, 'j': j}, [100 * k + j + 0.5] * reps_b, reps_b * (100 * k + j + 0.5)) for k in (1, 2) for j in js],
             len(js) * 2 - 1)

    def shape(res):
        best, results = res
        return ([({k: v for k, v in r.items() if k not in ('records', 'score')}, list(r['records']), r['score']) for r in results],
                next(i for i, r in enumerate(results) if r is best))

    def judge(k, box_a, box_b):
        boxes = {'a': box_a, 'b': box_b} if case['first'] == 'a' else {'a': box_b, 'b': box_a}
        for who, exp in (('a', exp_a), ('b', exp_b)):
            box = boxes[who]
            got = None if box.error is not None else shape(box.value)
            if got != exp:
                raise Violation(f'two searches on two threads (the {"second" if who != case["first"] else "first"} one is search '
                                f'{who}): search {who} gave a wrong outcome when the other cut in at line event {k}',
                                expected=exp, observed=repr(box.error) if box.error is not None else got)
    if case.get('two_cuts'):
        # two preemptions, at the library's function entries: the first search is cut, the second is started and held
        # half-way, the first finishes, the second finishes
        return preempt.check_pair2(make, lambda k, j, a, b: judge((k, j), a, b), case.get('kj'))
    return preempt.check_pair(make, judge, case.get('k'))


class SigSeedLogger(Core.Model):
    """Model classes whose constructors expose optional arguments the grid does not name."""

    def __init__(self, a, seed=None, logger=None):
        super().__init__(seed=seed, logger=logger)
        self.a = a
        self.complete()


class SigLogger(Core.Model):
    def __init__(self, a, logger=None):
        super().__init__(seed=1, logger=logger)
        self.a = a
        self.complete()


class SigKwOnly(Core.Model):
    def __init__(self, a, *, logger=None, seed=3, verbose=False, processes=None, score=None):
        super().__init__(seed=seed, logger=logger)
        self.a = a
        self.complete()


class SigKwargs(Core.Model):
    def __init__(self, a, **kwargs):
        super().__init__(seed=1)
        self.a, self.extra = a, dict(kwargs)
        self.complete()


SIG_MODELS = {'seed_logger': SigSeedLogger, 'logger': SigLogger, 'kwonly': SigKwOnly, 'kwargs': SigKwargs}


def sig_score(model):
    return 10 * model.a + len(getattr(model, 'extra', ()))


def traits_case(case):
    reset_library()
    procs, oc = case['procs'], case.get('outcome')
    if procs != 1:
        sched.install(Batching, (tuple(tuple(w) for w in oc[0]), tuple(oc[1])) if oc else None, sched.WorkerCache())
    try:
        if case['what'] == 'nested':
            params = {'a': [3, 1, 2]}
            reps = 2
            best, results = Batching.grid_search(GModel, params, nested_score, processes=procs, repetitions=reps,
                                                 mode=ScoreMode.MIN_SUM)
            cs = [{'a': a} for a in (3, 1, 2)]
            exp = [100 * c['a'] + 8 for c in cs]
        elif case['what'] == 'signature':
            params = {'a': [2, 1, 3], 'b': 5} if case['sig'] == 'kwargs' else {'a': [2, 1, 3]}
            reps = 2
            best, results = Batching.grid_search(SIG_MODELS[case['sig']], params, sig_score, processes=procs,
                                                 repetitions=reps, mode=ScoreMode.MIN_SUM)
            cs = [dict({'a': a}, **({'b': 5} if case['sig'] == 'kwargs' else {})) for a in (2, 1, 3)]
            exp = [10 * c['a'] + (1 if case['sig'] == 'kwargs' else 0) for c in cs]
        elif case['what'] == 'name':
            n = case['name']
            params = {n: [3, 1, 2], 'a': [10, 20]}
            best, results = Batching.grid_search(KwModel, params, kw_score, processes=procs, max_timesteps=3,
                                                 repetitions=1, mode=ScoreMode.MIN)
            cs = [{n: x, 'a': a} for x in (3, 1, 2) for a in (10, 20)]
            exp = [sum((i + 1) * v for i, (k, v) in enumerate(sorted(c.items()))) + 3000 for c in cs]
            reps = 1
        else:
            params = {'a': [2, 1, 3]}
            reps = 3
            best, results = Batching.grid_search(TallyModel, params, tally_score, processes=procs, repetitions=reps,
                                                 mode=ScoreMode.MIN_SUM)
            cs = [{'a': a} for a in (2, 1, 3)]
            exp = []
            for c in cs:
                rnd = random.Random(c['a'])
                exp.append(3 * c['a'] * 1000 + int(sum(rnd.random() for _ in range(3)) * 100))
    finally:
        if procs != 1:
            sched.uninstall(Batching)
    what = f'search over {params} ({case["what"]}), processes {procs}, schedule {oc}'
    if not isinstance(results, list) or len(results) != len(cs):
        raise Violation(f'{what}: number of results differs from the number of combinations', expected=len(cs),
                        observed=repr(results)[:300])
    for i, (c, res) in enumerate(zip(cs, results)):
        if not isinstance(res, dict) or {k: v for k, v in res.items() if k not in ('records', 'score')} != c:
            raise Violation(f'{what}: result {i} does not carry its own unmodified parameters', expected=c, observed=res)
        if list(res['records']) != [exp[i]] * reps:
            raise Violation(f'{what}: result {i} records differ from the scores of its own repetitions',
                            expected=[exp[i]] * reps, observed=res['records'])
        if res['score'] != exp[i] * (reps if case['what'] != 'name' else 1):
            raise Violation(f'{what}: result {i} aggregate', expected=exp[i] * reps, observed=res['score'])
    first = exp.index(min(exp))
    if best is not results[first] and best != results[first]:
        raise Violation(f'{what}: best is not the first minimum', expected=first, observed=best)
    return (case['what'], case.get('name'), tuple(exp))


def traits_cases():
    ocs = [None] + [[list(map(list, oc[0])), list(oc[1])] for oc in list(sched.outcomes(6, 2))[:3]]
    for n in ODD_NAMES:
        yield {'leg': 'traits', 'what': 'name', 'name': n, 'procs': 1}
        for oc in ocs:
            yield {'leg': 'traits', 'what': 'name', 'name': n, 'procs': 2, 'outcome': oc}
    for sig in SIG_MODELS:
        yield {'leg': 'traits', 'what': 'signature', 'sig': sig, 'procs': 1}
        for oc in sched.outcomes(3, 2):
            yield {'leg': 'traits', 'what': 'signature', 'sig': sig, 'procs': 2, 'outcome': [list(map(list, oc[0])), list(oc[1])]}
    yield {'leg': 'traits', 'what': 'nested', 'procs': 1}
    for oc in sched.outcomes(3, 2):
        yield {'leg': 'traits', 'what': 'nested', 'procs': 2, 'outcome': [list(map(list, oc[0])), list(oc[1])]}
    yield {'leg': 'traits', 'what': 'tally', 'procs': 1}
    for oc in sched.outcomes(3, 2):
        yield {'leg': 'traits', 'what': 'tally', 'procs': 2, 'outcome': [list(map(list, oc[0])), list(oc[1])]}


START_CHILD = r'''
import json, multiprocessing, sys
sys.path.insert(0, sys.argv[1]); sys.path.insert(0, sys.argv[2])
import mc.props.c16 as c16
import ECAgent.Batching as Batching
if __name__ == '__main__':
    multiprocessing.set_start_method(sys.argv[3], force=True)
    best, results = Batching.grid_search(c16.StepModel, {'a': [1, 2, 3], 'life': 100}, c16.steps_score, processes=2,
                                         max_timesteps=int(sys.argv[4]), repetitions=2, mode=Batching.ScoreMode.MAX_SUM)
    print('RESULT ' + json.dumps([[r['a'], r['records'], r['score']] for r in results] + [results.index(best)]))
'''


def start_method_case(case):
    """A search with worker processes that are NOT forked from the caller (spawn / forkserver: they import everything
    afresh): repetitions and max_timesteps still apply, the outcome equals the serial one."""
    import json
    import os
    import subprocess
    import sys
    tree = os.path.dirname(os.path.dirname(os.path.abspath(Core.__file__)))
    verif = os.path.dirname(os.path.dirname(os.path.dirname(os.path.abspath(__file__))))
    r = subprocess.run([sys.executable, '-c', START_CHILD, tree, verif, case['method'], str(case['limit'])],
                       capture_output=True, text=True, env=dict(os.environ, PYTHONHASHSEED='0'), timeout=300)
    line = next((ln for ln in r.stdout.splitlines() if ln.startswith('RESULT ')), None)
    if line is None:
        raise Violation(f'grid_search with 2 {case["method"]}-started worker processes failed',
                        observed=(r.stderr.strip().splitlines() or [''])[-1])
    got = json.loads(line[7:])
    lim = case['limit']
    exp = [[a, [lim, lim], 2 * lim] for a in (1, 2, 3)] + [0]
    if got != exp:
        raise Violation(f'grid_search with 2 {case["method"]}-started worker processes (max_timesteps={lim}, 2 repetitions): '
                        f'outcome differs from the serial one', expected=exp, observed=got)
    return 3


def limit_cases():
    for limit, life in ((3, 100), (5, 2), (4, 3)):
        yield {'leg': 'limit', 'limit': limit, 'life': life, 'procs': 1}
        yield {'leg': 'limit', 'limit': limit, 'life': life, 'procs': 1, 'dt': True}
        yield {'leg': 'limit', 'limit': limit, 'life': life, 'procs': 2, 'dt': True, 'outcome': None}
        for oc in sched.outcomes(3, 2):
            yield {'leg': 'limit', 'limit': limit, 'life': life, 'procs': 2,
                   'outcome': [list(map(list, oc[0])), list(oc[1])]}


def reused_list_case(case):
    """One ParameterList searched several times with its declaration edited in between; repeated values count."""
    reset_library()
    pl = Batching.ParameterList({'a': [3, 1, 2], 'b': [5, 6]})
    shared = [2, 3]
    GLOBAL_TABLE.clear()
    GLOBAL_TABLE.update({(a, b): 10 * a + b for a in (1, 2, 3, 4) for b in (0, 5, 6)})
    plan = [('run', [(3, 5), (3, 6), (1, 5), (1, 6), (2, 5), (2, 6)]), ('remove', 'b'), ('run', [(3, 0), (1, 0), (2, 0)]),
            ('remove', 'a'), ('add', ('a', [4, 1, 1, 4])), ('run', [(4, 0), (1, 0), (1, 0), (4, 0)]),
            # a name declared with a single value, removed, and declared again with a series of values (and back)
            ('add', ('b', 6)), ('run', [(4, 6), (1, 6), (1, 6), (4, 6)]), ('remove', 'b'), ('add', ('b', [5, 6])),
            ('run', [(4, 5), (4, 6), (1, 5), (1, 6), (1, 5), (1, 6), (4, 5), (4, 6)]),
            ('remove', 'b'), ('add', ('b', 5)), ('run', [(4, 5), (1, 5), (1, 5), (4, 5)]),
            # the caller keeps the list it declared and extends it in place between two searches
            # (the declaration either follows the caller's list or keeps the values it had when declared - the same way in
            # every search: 'run_either' lists both readings)
            ('remove', 'a'), ('add', ('a', shared)), ('grow', 1),
            ('run_either', ([(2, 5), (3, 5), (1, 5)], [(2, 5), (3, 5)])), ('grow', 4),
            ('run_either', ([(2, 5), (3, 5), (1, 5), (4, 5)], [(2, 5), (3, 5)]))]
    n = 0
    reading = None
    for what, arg in plan:
        if what == 'run_either':
            best, results = Batching.grid_search(GModel, pl, global_score, processes=case['procs'], mode=ScoreMode.MIN)
            got = [(r['a'], r.get('b', 0), r['score']) for r in results]
            exps = [[(a, b, 10 * a + b) for a, b in alt] for alt in arg]
            n += 1
            fits = [i for i, e in enumerate(exps) if e == got and reading in (None, i)]
            if not fits:
                raise Violation(f'search {n} over a ParameterList whose value list the caller extended in place: the combinations '
                                f'evaluated follow neither the list as it is now nor the list as declared (the same reading '
                                f'in every search; processes={case["procs"]})', expected=exps, observed=got)
            reading = fits[0]
            continue
        if what == 'remove':
            pl.remove_parameter(arg)
        elif what == 'add':
            pl.add_parameter(*arg)
        elif what == 'grow':
            shared.append(arg)
        else:
            best, results = Batching.grid_search(GModel, pl, global_score, processes=case['procs'], mode=ScoreMode.MIN)
            got = [(r['a'], r.get('b', 0), r['score']) for r in results]
            exp = [(a, b, 10 * a + b) for a, b in arg]
            n += 1
            if got != exp:
                raise Violation(f'search {n} over a ParameterList edited since the previous search (repeated values '
                                f'included) does not evaluate its current combinations (processes={case["procs"]})',
                                expected=exp, observed=got)
            first = [e[2] for e in exp].index(min(e[2] for e in exp))
            if best != results[first]:
                raise Violation(f'search {n}: best is not the first minimum', expected=first)
    return n


def source_dict_case(case):
    """A dict and a ParameterList built from it are searched alternately while each is edited: every search evaluates
    the declaration of the object it was given, as it is at that moment."""
    reset_library()
    GLOBAL_TABLE.clear()
    GLOBAL_TABLE.update({(a, b): 10 * a + b for a in (1, 2, 3, 4) for b in (0, 5, 6)})
    src = {'a': [3, 1, 2]}
    pl = Batching.ParameterList(src)
    pl.add_parameter('b', [5, 6])
    n = 0

    def search(params, combos, what):
        nonlocal n
        best, results = Batching.grid_search(GModel, params, global_score, processes=case['procs'], mode=ScoreMode.MIN)
        got = [(r['a'], r.get('b', 0), r['score']) for r in results]
        exp = [(a, b, 10 * a + b) for a, b in combos]
        n += 1
        if got != exp:
            raise Violation(f'{what} (processes={case["procs"]}): the search does not evaluate the declaration of the '
                            f'object it was given', expected=exp, observed=got)
        if best != results[[e[2] for e in exp].index(min(e[2] for e in exp))]:
            raise Violation(f'{what}: best is not the first minimum')
    search(src, [(3, 0), (1, 0), (2, 0)], 'the dict, after a parameter was added to the list built from it')
    search(pl, [(3, 5), (3, 6), (1, 5), (1, 6), (2, 5), (2, 6)], 'the list')
    src['a'] = [4, 1]
    src['b'] = [0]
    search(pl, [(3, 5), (3, 6), (1, 5), (1, 6), (2, 5), (2, 6)], 'the list, after the dict it was built from was edited')
    search(src, [(4, 0), (1, 0)], 'the edited dict')
    pl.remove_parameter('b')
    search(src, [(4, 0), (1, 0)], 'the dict, after a parameter was removed from the list')
    search(pl, [(3, 0), (1, 0), (2, 0)], 'the list after the removal')
    return n


GLOBAL_TABLE = {}


def global_score(model):
    """Reads a module-level table: a worker process forked before the table changed would answer from the old one."""
    return GLOBAL_TABLE[(model.a, model.b)]


def pool_reuse_case(case):
    """A sequence of searches in one process with the REAL multiprocessing.Pool; the module-level score table changes
    between the calls.  Every search must reflect the table current at its call, for every process count."""
    reset_library()
    params = {'a': [1, 2, 3]}
    outs = []
    for step, (table, procs) in enumerate(case['sequence']):
        GLOBAL_TABLE.clear()
        GLOBAL_TABLE.update({(a, 0): v for a, v in zip(params['a'], table)})
        best, results = Batching.grid_search(GModel, {'a': list(params['a'])}, global_score, processes=procs,
                                             mode=ScoreMode(case['mode']))
        scores = [r['score'] for r in results]
        if [r['records'] for r in results] != [[v] for v in table] or scores != list(table):
            raise Violation(f'search {step} of the sequence {case["sequence"]} (processes={procs}) reports scores that '
                            f'do not belong to its own evaluation', expected=list(table), observed=scores)
        is_min = case['mode'] % 2 == 0
        first = scores.index(min(scores) if is_min else max(scores))
        if best != results[first]:
            raise Violation(f'search {step} of the sequence (processes={procs}) returned the wrong best',
                            expected=first, observed=best)
        outs.append(tuple(scores))
    return tuple(outs)


def pool_reuse_cases():
    tables = [[5, 1, 9], [1, 9, 5], [9, 5, 1]]
    for mode in (0, 1):
        for procs_seq in ((2, 2, 2), (2, 3, 2), (1, 2, 1), (3, 3, 1)):
            yield {'leg': 'pool_reuse', 'mode': mode, 'sequence': [[t, p] for t, p in zip(tables, procs_seq)]}


def shape_reps():
    out = []
    for name, params, nc in SHAPES:
        for reps in (1, 2, 3):
            if nc * reps <= 6:
                out.append((name, nc, reps))
    return out


def serial_cases(tier):
    vals = VALS[tier]
    for name, nc, reps in shape_reps():
        for flat in itertools.product(vals, repeat=nc * reps):
            for mode in range(8):
                if mode >= 6 and reps < 2:
                    continue
                yield {'leg': 'serial', 'shape': name, 'reps': reps, 'mode': mode, 'table': list(flat)}
    # float twin on the small shapes
    for name, nc, reps in shape_reps():
        if nc * reps > 4:
            continue
        for flat in itertools.product(FVALS, repeat=nc * reps):
            for mode in range(8):
                if mode >= 6 and reps < 2:
                    continue
                yield {'leg': 'serial_float', 'shape': name, 'reps': reps, 'mode': mode, 'table': list(flat),
                       'float': True}
        for flat in itertools.product(FBIG, repeat=nc * reps):
            for mode in range(8):
                if mode >= 6 and reps < 2:
                    continue
                yield {'leg': 'serial_bigfloat', 'shape': name, 'reps': reps, 'mode': mode, 'table': list(flat),
                       'float': True}
        if reps >= 2:
            for sign in (1, -1):
              for flat0 in itertools.product(FHUGE, repeat=nc * reps):
                flat = [sign * v for v in flat0]
                for mode in (0, 1, 4, 5):          # min / max / sums (mean and variance are not finite-safe here)
                    yield {'leg': 'serial_overflow', 'shape': name, 'reps': reps, 'mode': mode, 'table': list(flat),
                           'float': True}
    # int and float scores side by side, the ints beyond 2**53 (distinct as ints, equal once coerced to doubles)
    mix = [2 ** 53, 2 ** 53 + 1, 0.5, float(2 ** 53), -(2 ** 53) - 1]
    for name, nc in (('2', 2), ('3', 3)):
        for flat in itertools.product(mix, repeat=nc):
            for mode in range(6):
                yield {'leg': 'serial_mixed', 'shape': name, 'reps': 1, 'mode': mode, 'table': list(flat)}
    # several repetitions whose records are equal in value across combinations but differ in type (ints / floats):
    # every combination's aggregate is computed from ITS records
    big = 2 ** 53 + 2
    # (the last two rows mix kinds WITHIN the repetitions of one combination: an int first, floats after it)
    rows = [[float(big)] * 3, [big] * 3, [1.0, 1.0, 1.0], [1, 1, 1], [0.0, 0.0, 0.0], [0, 0, 0], [1, 0.1, 0.7], [2, 0.5, 0.3]]
    for r1 in rows:
        for r2 in rows:
            if r1 is not r2:
                for mode in range(8):
                    yield {'leg': 'serial_typed_rows', 'shape': '2', 'reps': 3, 'mode': mode, 'table': r1 + r2}
    # scores that are numpy integer scalars (a count taken with ndarray.sum()): minimum, maximum and sum, values small
    # enough for their type; zero and the type's minimum among them
    for dt, vals in (('uint64', [0, 3, 7]), ('uint8', [0, 1, 9]), ('int8', [-128, 0, 5]), ('int64', [-2 ** 63, 0, 4])):
        for name, nc in (('2', 2), ('3', 3)):
            for flat in itertools.product(vals, repeat=nc):
                for mode in (0, 1, 4, 5):
                    yield {'leg': 'serial_numpy', 'shape': name, 'reps': 1, 'mode': mode, 'table': list(flat), 'np': dt}
    # parameter values given as one-shot iterables (generator, map, iterator): each value still evaluated once
    for src in ('generator', 'map', 'iter', 'range', 'tuple', 'legacy'):
        for mode in (0, 1):
            for flat in ([3, 1, 2], [1, 2, 3], [2, 3, 1]):
                yield {'leg': 'serial_sources', 'shape': '3', 'reps': 1, 'mode': mode, 'table': flat, 'source': src}


def selected_tables(nc, reps):
    """Ties, optimum first / middle / last, all huge, all equal."""
    B = BIG
    base = [[0] * (nc * reps), [B] * (nc * reps), [-B] * (nc * reps), [2 * B] * (nc * reps)]
    for pos in range(nc):
        lo = [1] * (nc * reps)
        hi = [1] * (nc * reps)
        for r in range(reps):
            lo[pos * reps + r] = -3
            hi[pos * reps + r] = B
        base += [lo, hi]
    huge = [(4 - ((i * 2) % 3)) * B for i in range(nc * reps)]
    base.append(huge)
    tie = [(i // reps) % 2 for i in range(nc * reps)]
    base.append(tie)
    return base


def sched_cases():
    for name, nc, reps in shape_reps():
        if nc < 2:
            continue
        for p in (2, 3):
            if p > nc:
                continue
            for oc in sched.outcomes(nc, p):
                for flat in selected_tables(nc, reps):
                    for mode in (0, 1, 3, 4) + ((6,) if reps >= 2 else ()):
                        yield {'leg': 'schedule', 'shape': name, 'reps': reps, 'mode': mode, 'table': flat,
                               'procs': p, 'outcome': [list(map(list, oc[0])), list(oc[1])]}


def big_grid_cases():
    """Grids of 129 / 143 / 211 combinations on 2 and 3 workers (default schedule); the optimum sits at the very end, in
    the middle or at the start."""
    for name, params, nc in EXTRA_SHAPES:
        if not name.startswith('big'):
            continue
        for p in (2, 3):
            for where in ('last', 'first', 'middle'):
                for mode in (0, 1):
                    flat = [((a * 37) % 101) + 10 for a in params['a']]
                    pos = {'last': nc - 1, 'first': 0, 'middle': nc // 2}[where]
                    flat[pos] = 0 if mode == 0 else 1000
                    yield {'leg': 'schedule', 'shape': name, 'reps': 1, 'mode': mode, 'table': flat, 'procs': p,
                           'outcome': None, 'cyclic': True}


def more_workers_cases():
    """More worker processes than combinations; grids that list a value twice or hold values equal across types.  The
    scores depend on the parameters only (every repetition of a combination scores the same row, cyclically)."""
    # (constant rows: an implementation is free to spread the repetitions of one combination over several workers, and
    # the table score function counts evaluations per process)
    rows = {1: [4, 4, 4], 2: [1, 1, 1], 3: [6, 6, 6], 5: [7, 7, 7], 7: [3, 3, 3]}
    for name, params, nc in [s for s in SHAPES if s[0] in ('2', '3')] + [s for s in EXTRA_SHAPES if not s[0].startswith('big')]:
        for reps in (2, 3):
            flat = []
            for a in params['a']:
                flat += rows[int(a)][:reps]
            for p in (nc + 1, nc + 3):
                for mode in (0, 1, 2, 5, 6, 7):
                    yield {'leg': 'schedule', 'shape': name, 'reps': reps, 'mode': mode, 'table': flat, 'procs': p,
                           'outcome': None, 'cyclic': True}


class _Ledger:
    value = 0


def same_name_case(case):
    """Two different model classes with the same qualified name (a class statement run twice with another body, a class
    factory) are searched one after the other in one process: each search evaluates ITS class with ITS parameters."""
    reset_library()

    def make(version):
        if version == 1:
            class Growth(Core.Model):
                def __init__(self, rate=1):
                    super().__init__(seed=1)
                    self.value = 10 * rate
                    self.complete()
        else:
            class Growth(Core.Model):
                def __init__(self, rate=1, decay=0, offset=0):
                    super().__init__(seed=1)
                    self.value = 10 * rate - 3 * decay + offset
                    self.complete()
        return Growth

    grids = {1: ({'rate': [3, 1, 2]}, lambda rate: 10 * rate),
             2: ({'rate': [1, 2], 'decay': [0, 5, 9], 'offset': [-1, 4]}, lambda rate, decay, offset: 10 * rate - 3 * decay + offset)}
    n = 0
    for version in case['order']:
        grid, formula = grids[version]
        names = list(grid)
        combos_ = [dict(zip(names, vs)) for vs in itertools.product(*[grid[k] for k in names])]
        for mode in (ScoreMode.MIN_SUM, ScoreMode.MAX_MEAN):
            best, summary = Batching.grid_search(make(version), {k: list(v) for k, v in grid.items()}, lambda m: m.value,
                                                 repetitions=2, mode=mode)
            n += 1
            scores = [formula(**c) for c in combos_]
            if [{k: r[k] for k in names} for r in summary] != combos_ or [r['records'] for r in summary] != [[s_, s_] for s_ in scores]:
                raise Violation(f'searches over classes of the same name in the order {case["order"]}: the search over version '
                                f'{version} did not evaluate every combination with its own parameters',
                                expected=[[s_, s_] for s_ in scores], observed=[r.get('records') for r in summary])
            agg = [2 * s_ if mode == ScoreMode.MIN_SUM else s_ for s_ in scores]
            want = agg.index(min(agg) if mode == ScoreMode.MIN_SUM else max(agg))
            if best is not summary[want]:
                raise Violation(f'searches over classes of the same name ({case["order"]}), version {version}, {mode.name}: best',
                                expected=want, observed=[i for i, r in enumerate(summary) if r is best])
    return n


def chunk_fn(ctx, chunk):
    cache = sched.WorkerCache()
    serial_memo = {}
    for case in chunk:
        if case['leg'] in ('limit', 'reused_list', 'traits', 'source_dict', 'start_method', 'same_name', 'seeded_reps', 'mapping'):
            ctx.traces += 1
            ctx.states += 1
            ctx.transitions += 3
            try:
                ctx.outcome(hbfs._guard({'limit': limit_case, 'reused_list': reused_list_case,
                                         'traits': traits_case, 'source_dict': source_dict_case,
                                         'start_method': start_method_case, 'same_name': same_name_case,
                                         'seeded_reps': seeded_reps_case, 'mapping': mapping_case}[case['leg']], case))
            except Violation as v:
                ctx.report(case, v)
            continue
        if case['leg'] == 'pool_reuse':
            ctx.traces += 1
            ctx.states += 1
            ctx.transitions += len(case['sequence'])
            try:
                ctx.outcome(hbfs._guard(pool_reuse_case, case))
            except Violation as v:
                ctx.report(case, v)
            continue
        ctx.traces += 1
        ctx.states += 1
        ctx.transitions += len(case['table'])
        try:
            out = hbfs._guard(run_search, case, cache)
            ctx.outcome((case['shape'], case['reps'], case['mode'], tuple(case['table']), out[0]))
            if case['leg'] == 'schedule':
                key = (case['shape'], case['reps'], case['mode'], tuple(case['table']))
                if key not in serial_memo:
                    sc = dict(case, procs=1, outcome=None, leg='serial')
                    serial_memo[key] = hbfs._guard(run_search, sc, None)
                if serial_memo[key] != out:
                    raise Violation(f'outcome under schedule {case["outcome"]} differs from the serial outcome '
                                    f'(shape {case["shape"]}, mode {case["mode"]}, table {case["table"]})',
                                    expected=serial_memo[key][1][:400], observed=out[1][:400])
        except Violation as v:
            ctx.report(case, v)
            if ctx.full():
                break
    ctx.leg('worker_processes', forks=cache.forks)


# the cheap legs run once more under the runner's ambient configurations (python -O, other logger levels)
AMBIENT_LEGS = True


def run(ctx):
    ser = list(serial_cases(ctx.tier))
    # cases that carry their whole story in one search first: a stale cache filled by EARLIER searches of the same
    # process makes later cases fail in a way that cannot be replayed on its own
    ser.sort(key=lambda c: c['leg'] not in ('serial_typed_rows', 'serial_mixed'))
    sc = list(sched_cases()) + list(more_workers_cases()) + list(big_grid_cases())
    pr = list(pool_reuse_cases())
    lim = list(limit_cases()) + [{'leg': 'reused_list', 'procs': 1}, {'leg': 'source_dict', 'procs': 1}] + list(traits_cases())
    lim += [{'leg': 'same_name', 'order': o} for o in ([1, 2], [2, 1], [1, 2, 1], [2, 2])]
    lim += [{'leg': 'seeded_reps', 'name': nm, 'reps': r} for nm in ('seed', 'a', 'both') for r in (2, 3)]
    lim += list(mapping_cases())
    if not ctx.small:
        lim += [{'leg': 'start_method', 'method': 'spawn', 'limit': 3}, {'leg': 'start_method', 'method': 'forkserver', 'limit': 4}]
    first = [c for c in ser if c['leg'] == 'serial_typed_rows'] + [c for c in ser if c['leg'] == 'serial_mixed']
    allc = first + lim + [c for c in ser if c['leg'] not in ('serial_typed_rows', 'serial_mixed')] + sc
    if ctx.small:      # reduced: limits, traits, the 2- and 3-combination serial tables, no schedules
        allc = lim + [c for c in ser if c['shape'] in ('2', '3') and c['reps'] == 1]
    size = max(1, len(allc) // (ctx.procs * 4))
    par.pmap(ctx, chunk_fn, [allc[i:i + size] for i in range(0, len(allc), size)], procs=ctx.procs)
    if not ctx.violations and not ctx.small:
        # real pools fork: run these from the parent, one after the other (deterministic: staleness, not timing)
        chunk_fn(ctx, pr + [{'leg': 'reused_list', 'procs': 2}, {'leg': 'source_dict', 'procs': 2}])
        ctx.leg('pool_reuse_real_pool', sequences=len(pr))
    if not ctx.violations and not ctx.small:
        ns = 0
        for first in ('a', 'b'):
            for two in (False, True):
                case = {'leg': 'two_searches', 'first': first, 'two_cuts': two}
                ctx.traces += 1
                try:
                    ns += hbfs._guard(two_searches_case, case)
                except Violation as v:
                    ctx.report(dict(case, kj=v.case_kj) if hasattr(v, 'case_kj') else dict(case, k=getattr(v, 'case_k', 0)), v)
        ctx.transitions += ns
        ctx.leg('two_searches', schedules=ns, note='E5: two serial searches on two threads; one preemption at every library line, two preemptions at '
                                                   'every pair of library function entries')
    ctx.leg('serial', searches=len(ser))
    ctx.leg('schedule', searches=len(sc))
    for c in (ser[len(ser) // 3], ser[-1], sc[len(sc) // 2]):
        ctx.sample(c)


def replay(case):
    if case['leg'] == 'traits':
        hbfs._guard(traits_case, case)
        return
    if case['leg'] == 'source_dict':
        hbfs._guard(source_dict_case, case)
        return
    if case['leg'] == 'same_name':
        hbfs._guard(same_name_case, case)
        return
    if case['leg'] == 'seeded_reps':
        hbfs._guard(seeded_reps_case, case)
        return
    if case['leg'] == 'mapping':
        hbfs._guard(mapping_case, case)
        return
    if case['leg'] == 'two_searches':
        hbfs._guard(two_searches_case, case)
        return
    if case['leg'] == 'start_method':
        hbfs._guard(start_method_case, case)
        return
    if case['leg'] == 'limit':
        hbfs._guard(limit_case, case)
        return
    if case['leg'] == 'reused_list':
        hbfs._guard(reused_list_case, case)
        return
    if case['leg'] == 'pool_reuse':
        hbfs._guard(pool_reuse_case, case)
        return
    out = hbfs._guard(run_search, case, None)
    if case['leg'] == 'schedule':
        ser = hbfs._guard(run_search, dict(case, procs=1, outcome=None), None)
        if ser != out:
            raise Violation(f'outcome under schedule {case["outcome"]} differs from the serial outcome '
                            f'(shape {case["shape"]}, mode {case["mode"]}, table {case["table"]})',
                            expected=ser[1][:400], observed=out[1][:400])
