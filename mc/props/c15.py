"""C15 - a batch runs every combination x repetition once; no result lost or mixed.

E3: batch_run is executed with ``ECAgent.Batching.Pool`` replaced by SchedPool under every enumerated outcome
(per-worker task sequences x completion order) for batches of up to 4 (5) tasks, and serially (processes=1);
E2 over grid shapes, repetitions, step limits and collector selections; a failing execution injected at every
position of the batch in every schedule.  A conformance leg runs the same batches on the real
multiprocessing.Pool and checks that what it produces is one of the enumerated outcomes.
"""
import itertools
import time

from mc.engine import hbfs, par, sched
from mc.engine.report import Violation
from mc.engine.seams import reset_library, ambient_logger

import ECAgent.Core as Core
import ECAgent.Batching as Batching
from ECAgent.Collectors import Collector

META = {
    'rule': 'serial leg: full product grid x repetitions x life x step limit x collector selection; schedule leg: every '
            'SchedPool outcome for every batch of n <= 4 (5) tasks and p <= 3 (4) workers; fault leg: failing task at '
            'every position x every outcome; distinct_nontrivial counts distinct (batch, schedule, result) observations',
    'alphabet': {'grids': '1x1, 2x1, 3x1, 2x2, 3x2 (names a, b)', 'repetitions': [1, 2, 3],
                 'life (own completion time)': [0, 2, 4], 'max_timesteps': '0, life-1, life, life+3',
                 'collectors': ['None', "'c0'", "['c0','c1']", "('c0','c1')", '34 (invalid)'],
                 'schedules': 'all outcomes (worker task sequences, completion order) of FIFO dispatch at chunksize 1',
                 'injected errors': ['RuntimeError', 'StopIteration', 'KeyError', 'BoomError (custom)',
                                     'ModelCompleteError (single-process path)'],
                 'long runs': 'life / max_timesteps pairs (1000,129),(1000,200),(1000,300),(257,1000),(128,128),(129,none),'
                              '(640,639) serially and on two workers'},
    'bounds': {'quick': 'n <= 4 tasks, p in 2,3 (p >= n is equivalent to p = n); faults on n = 3',
               'thorough': 'n <= 5 tasks, p in 2,3,4,5; faults on n <= 4'},
    'assumptions': ['worker processes share nothing, so a worker\'s results depend only on its own task sequence '
                    '(each distinct sequence runs once in a real forked process, outcomes are assembled from those)',
                    'dispatch model: FIFO task queue, chunksize 1, results yielded in completion order; bound to the '
                    'real multiprocessing.Pool by the conformance leg (not a deciding step)'],
}


class Rec(Collector):
    """Self-identifying records: (collector id, parameters, timestep, number of collections of this run so far)."""

    def __init__(self, id, model, a, b, life, boom):
        super().__init__(id, model)
        self.a, self.b, self.life, self.boom = a, b, life, boom
        self.n = 0

    def collect(self):
        t = self.model.systems.timestep
        self.n += 1
        if self.boom is not None and t == 0 and self.id == 'c0':
            if self.boom in LIB_ERRORS:       # the library's own exception types, raised by model code
                raise LIB_ERRORS[self.boom](self.model)
            if self.boom.endswith('!done'):   # the failing code had already marked its model complete
                self.model.complete()
            raise BOOM_KINDS[self.boom](f'boom a={self.a} b={self.b} t={t}')
        if getattr(self.model, 'style', None) == 'rebinding' and t == 1:
            self.records = list(self.records)      # the collector replaces its records object (a burn-in trim, a window)
        if isinstance(self.records, dict):
            self.records[t] = (self.id, self.a, self.b, t, self.n)       # a collector that keys its records by timestep
        else:
            self.records.append((self.id, self.a, self.b, t, self.n))
        if t > self.life + 6:
            raise Violation(f'execution a={self.a} b={self.b} is still being stepped at timestep {t}, far past its own '
                            f'completion (life {self.life})', expected=self.life, observed=t)
        if self.id == 'c1' and t + 1 >= self.life and getattr(self.model, 'style', None) not in ('own_done', 'own_execute'):
            self.model.complete()


class InnerRec(Collector):
    def collect(self):
        self.records.append(('inner', self.model.k, self.model.systems.timestep))


class InnerB(Core.Model):
    """A small sub-model that an outer model runs as a (serial) batch of its own while it is being built."""

    def __init__(self, k):
        super().__init__(seed=1)
        self.k = k
        self.systems.add_system(InnerRec('ci', self))


class Fin(Core.System):
    """Runs first in every timestep; from timestep `life` on it declares the model finished through the model's own
    criterion (BModel.is_running), not through complete()."""

    def execute(self):
        if self.model.systems.timestep >= self.model.life:
            self.model.done = True


class Jump(Core.System):
    """Event-driven clock: runs last in timestep 1 and skips the clock two timesteps ahead."""

    def execute(self):
        if self.model.systems.timestep == 1:
            self.model.systems.timestep += 2


class LegacySeq:
    """A sequence in the old protocol: indexable and sized, no __iter__."""

    def __init__(self, items):
        self._items = list(items)

    def __len__(self):
        return len(self._items)

    def __getitem__(self, i):
        return self._items[i]


class BoomError(Exception):
    pass


class QuietError(Exception):
    """An exception class whose instances are falsy (it carries a list of problems and defines __len__)."""

    def __len__(self):
        return 0


# what a model's own code gets from the library when it asks for a missing agent, adds one twice, reads a component an
# agent does not carry or steps a finished (sub-)model
LIB_ERRORS = {'ModelCompleteError': lambda m: Core.ModelCompleteError(),
              'AgentNotFoundError': lambda m: Core.AgentNotFoundError('ghost', m.environment),
              'DuplicateAgentError': lambda m: Core.DuplicateAgentError('twin', m.environment),
              'ComponentNotFoundError': lambda m: Core.ComponentNotFoundError(Core.Agent('lone', m), Core.Component)}
BOOM_KINDS = {'RuntimeError': RuntimeError, 'StopIteration': StopIteration, 'KeyError': KeyError,
              'BoomError': BoomError, 'ModelCompleteError': Core.ModelCompleteError,
              'AgentNotFoundError': Core.AgentNotFoundError, 'DuplicateAgentError': Core.DuplicateAgentError,
              'ComponentNotFoundError': Core.ComponentNotFoundError,
              # the built-in TimeoutError (what a model's own I/O may raise), and errors raised after complete()
              'TimeoutError': TimeoutError, 'RuntimeError!done': RuntimeError, 'BoomError!done': BoomError,
              'NotImplementedError': NotImplementedError, 'QuietError': QuietError}


LIB_ERROR_TYPES = tuple(BOOM_KINDS[k] for k in LIB_ERRORS)


class BModel(Core.Model):
    def execute(self, n=1):
        # a model may put per-step logic of its own into execute(): here, in style 'own_execute', its stop criterion
        super().execute(n)
        if self.style == 'own_execute' and self.systems.timestep >= self.life:
            self.complete()

    def is_running(self):
        # a model may have its own notion of being finished
        return super().is_running() and not getattr(self, 'done', False)

    def __init__(self, a, b=0, life=2, boom=None, delay=0.0, jitter=0, warm=0, nocoll=None, style=None):
        super().__init__(seed=1)
        ambient_logger(self)
        self.style, self.life, self.done = style, life, False
        if style == 'dt_attr':
            self.timestep = 0.25      # the model's own attribute of that name (the length of a step, in hours)
        if style == 'nested_batch':
            # the model calibrates itself with a nested, serial batch of sub-models before its own run starts
            self.inner = Batching.batch_run(InnerB, {'k': [1, 2]}, collectors='ci', processes=1, max_timesteps=30)
            if [len(r) for r in self.inner] != [30, 30]:
                raise Violation('the nested batch of sub-models did not run its own 30 timesteps each',
                                expected=[30, 30], observed=[len(r) for r in self.inner])
        if style == 'own_done':
            self.systems.add_system(Fin('fin', self, priority=5))
        elif style == 'jump':
            self.systems.add_system(Jump('jump', self, priority=-5))
        # boom names the failing execution by its parameters and the exception kind ("a,b:Kind"); it fails in its
        # first timestep
        if boom is not None and boom.split(':')[0] == f'{a},{b}':
            boom = boom.split(':')[1]
            if boom.endswith('@init'):       # the execution fails while the model is being constructed
                kind = boom[:-5]
                if kind in LIB_ERRORS:
                    raise LIB_ERRORS[kind](self)
                raise BOOM_KINDS[kind](f'boom in __init__ a={a} b={b}')
        else:
            boom = None
        if nocoll != f'{a},{b}':         # nocoll names an execution whose model lacks the collector 'c0'
            self.systems.add_system(Rec('c0', self, a, b, life, boom))
            if style == 'dict_records':
                self.systems['c0'].records = {}
        self.systems.add_system(Rec('c1', self, a, b, life, boom))     # registered second: runs after c0
        if delay:      # conformance leg only: run durations perturbed per execution so completion order gets permuted
            time.sleep(delay * ((a * 7 + b * 3 + jitter) % 4))
        if life <= 0:
            self.complete()
        if warm:          # a model that warms itself up: its clock is not 0 when the constructor returns
            self.execute(warm)


GLOBAL_SHIFT = [0]


class ShiftRec(Collector):
    def collect(self):
        self.records.append((self.model.a, GLOBAL_SHIFT[0], self.model.systems.timestep))


class ShiftModel(Core.Model):
    """Reads module-level state: a worker forked before that state changed would answer from the old value."""

    def __init__(self, a):
        super().__init__(seed=1)
        ambient_logger(self)
        self.a = a
        self.systems.add_system(ShiftRec('c', self))


def pool_reuse_case(case):
    """Consecutive batch runs in one process on the REAL multiprocessing.Pool; module-level state changes in between.
    Every batch must consist of its own executions' records, for every process count."""
    reset_library()
    outs = []
    for step, (shift, procs) in enumerate(case['sequence']):
        GLOBAL_SHIFT[0] = shift
        got = Batching.batch_run(ShiftModel, {'a': [1, 2, 3]}, collectors='c', processes=procs, max_timesteps=2)
        exp = [[(a, shift, 0), (a, shift, 1)] for a in (1, 2, 3)]
        if sorted(map(repr, got)) != sorted(map(repr, exp)):
            raise Violation(f'batch {step} of the sequence {case["sequence"]} (processes={procs}) returned records that '
                            f'are not those of its own executions', expected=exp, observed=got)
        outs.append(repr(got))
    return tuple(outs)


def pool_reuse_cases():
    for procs_seq in ((2, 2, 2), (2, 3, 2), (1, 2, 1), (3, 3, 1)):
        yield {'leg': 'pool_reuse', 'sequence': [[10 * (i + 1), p] for i, p in enumerate(procs_seq)]}


def ref_records(cid, a, b, life, limit, style=None):
    """The execution's own clock, simulated: one collection per started timestep while the model runs and the clock
    is below the step limit."""
    out, t, n, running = [], 0, 0, life > 0
    while running and t < limit:
        n += 1
        out.append((cid, a, b, t, n))
        if style not in ('own_done', 'own_execute') and t + 1 >= life:
            running = False            # c1 marked the model complete in this timestep
        elif style == 'jump' and t == 1:
            t += 2                     # the last system of timestep 1 skipped the clock ahead
        t += 1
        if style in ('own_done', 'own_execute') and t >= life:
            running = False            # the first system of timestep `life` / the model's own execute() ends the run
    return out


GRIDS = {'1x1': {'a': [1], 'b': 5}, '2x1': {'a': [1, 2], 'b': [5]}, '3x1': {'a': [1, 2, 3]},
         '2x2': {'a': [1, 2], 'b': [5, 6]}, '3x2': {'a': [1, 2, 3], 'b': [5, 6]}}
COLLECTORS = {'none': None, 'c0': 'c0', 'list': ['c0', 'c1'], 'tuple': ('c0', 'c1')}


def grid_params(gname, life, boom_at=None):
    g = dict(GRIDS[gname])
    g['life'] = life
    return g


def task_list(gname, reps, life):
    g = GRIDS[gname]
    a_vals = g['a']
    b_vals = g.get('b', [0])
    if not isinstance(b_vals, list):
        b_vals = [b_vals]
    combos = [(a, b) for a in a_vals for b in b_vals]
    return combos * reps


def expected_result(task, coll, life, limit, style=None):
    a, b = task
    if coll == 'none':
        return None
    c0 = ref_records('c0', a, b, life, limit, style)
    if style == 'dict_records':
        c0 = {r[3]: r for r in c0}          # the execution's own records object: a dict keyed by timestep
    if coll == 'c0':
        return c0
    return {'c0': c0, 'c1': ref_records('c1', a, b, life, limit, style)}


def run_batch(case, cache=None):
    """One batch_run call under one schedule; compares the returned list with the reference."""
    reset_library()
    gname, reps, life, limit, coll = case['grid'], case['reps'], case['life'], case['limit'], case['collectors']
    params = grid_params(gname, life)
    tasks = task_list(gname, reps, life)
    boom = case.get('boom')            # index of the failing task or None
    procs = case['procs']
    kwargs = dict(collectors=COLLECTORS.get(coll, coll), processes=procs, repetitions=reps)
    if limit is not None:
        kwargs['max_timesteps'] = limit
    eff_limit = limit if limit is not None else 10 ** 9
    if case.get('warm'):
        params['warm'] = case['warm']
        eff_limit = max(eff_limit, case['warm'])      # warm-up steps happened before the limit was looked at
    if case.get('source'):
        # parameter values handed over as a one-shot iterable: each value is still run exactly once
        vals = list(params['a'])
        params['a'] = {'generator': (v for v in vals), 'map': map(int, vals), 'iter': iter(vals),
                       'range': range(vals[0], vals[-1] + 1), 'tuple': tuple(vals),
                       'legacy': LegacySeq(vals)}[case['source']]
    if case.get('style'):
        params['style'] = case['style']
    if case.get('nocoll') is not None:
        params['nocoll'] = f'{tasks[case["nocoll"]][0]},{tasks[case["nocoll"]][1]}'
    if boom is not None:
        # the failing execution is identified by its parameters (fault batches use repetitions = 1)
        params['boom'] = (f'{tasks[boom][0]},{tasks[boom][1]}:{case.get("boom_kind", "RuntimeError")}'
                          f'{"@init" if case.get("boom_where") == "init" else ""}')
    oc = case.get('outcome')
    if procs != 1:
        outcome = (tuple(tuple(w) for w in oc[0]), tuple(oc[1])) if oc else None
        sched.install(Batching, outcome, cache or sched.WorkerCache())
    try:
        try:
            got = Batching.batch_run(BModel, params, **kwargs)
            raised = None
        except (RuntimeError, StopIteration, KeyError, BoomError, QuietError, AttributeError, TimeoutError, NotImplementedError) + \
                LIB_ERROR_TYPES as e:
            got, raised = None, e
        except sched.PoolHang as e:
            raise Violation(f'batch_run never returns and the error of the failing execution never reaches the caller: '
                            f'{e} (batch {case})', expected='the error in the caller', observed='hang')
    finally:
        if procs != 1:
            sched.uninstall(Batching)
    n = len(tasks)
    order = list(range(n)) if procs == 1 or not oc else list(oc[1])
    if boom is not None:
        fails = [i for i, t in enumerate(tasks) if t == tasks[boom] and
                 ((life > 0 and eff_limit > 0) or case.get('boom_where') == 'init')]
        if fails:
            if raised is None:
                raise Violation(f'an execution raising {case.get("boom_kind", "RuntimeError")} was dropped silently '
                                f'(batch {case})', expected='an error in the caller', observed=_short(got))
            if 'boom' not in str(raised) and 'StopIteration' not in str(raised) and \
                    not isinstance(raised, LIB_ERROR_TYPES):
                raise Violation(f'the caller got a different error: {raised!r}')
            return ('raised', str(raised))
    if case.get('nocoll') is not None:
        if raised is None:
            raise Violation(f'an execution whose model has no collector named c0 did not make batch_run fail: its result '
                            f'was dropped or invented (batch {case})', expected='an error in the caller',
                            observed=_short(got))
        return ('raised', type(raised).__name__)
    if raised is not None:
        raise Violation(f'batch_run raised {raised!r} although no execution fails')
    exp = [expected_result(tasks[i], coll, life, eff_limit, case.get('style')) for i in order]
    exp = [e for e in exp if e is not None]
    if procs != 1 and isinstance(got, list):
        # with several processes the order of the returned list is not part of the claim: compare as multisets
        # (records are self-identifying, so a mixed or duplicated result cannot hide)
        got_cmp, exp_cmp = sorted(map(repr, got)), sorted(map(repr, exp))
    else:
        got_cmp, exp_cmp = got, exp
    if got_cmp != exp_cmp:
        raise Violation(f'batch_run result differs from one result per execution (grid {gname}, repetitions {reps}, '
                        f'life {life}, max_timesteps {limit}, collectors {coll}, processes {procs}, schedule {oc})',
                        expected=_short(exp), observed=_short(got))
    return ('ok', repr(got))


def _short(x):
    s = repr(x)
    return s if len(s) < 700 else s[:700] + '...'


# ---------------------------------------------------------------------------------------------------------

def serial_cases():
    for gname in GRIDS:
        for reps in (1, 2, 3):
            for life in (0, 2, 4):
                for limit in sorted({0, life - 1, life, life + 3, None} - {-1}, key=lambda v: (v is None, v)):
                    for coll in COLLECTORS:
                        yield {'leg': 'serial', 'grid': gname, 'reps': reps, 'life': life, 'limit': limit,
                               'collectors': coll, 'procs': 1}


def long_cases():
    """Step limits and lifetimes far beyond small scope (block sizes, thresholds): limit below / at / above life."""
    for life, limit in ((1000, 129), (1000, 200), (1000, 300), (257, 1000), (128, 128), (129, None), (640, 639)):
        for procs, oc in ((1, None), (2, [[[0], [1]], [1, 0]])):
            yield {'leg': 'long', 'grid': '2x1', 'reps': 1, 'life': life, 'limit': limit, 'collectors': 'c0',
                   'procs': procs, 'outcome': oc}


def extra_cases():
    # models that warm themselves up in __init__ (clock 3 when the constructor returns)
    for life, limit in ((50, 10), (50, 2), (5, 10), (50, None)):
        if limit is None:
            continue
        for procs, oc in ((1, None), (2, [[[0], [1]], [1, 0]])):
            yield {'leg': 'warm', 'grid': '2x1', 'reps': 1, 'life': life, 'limit': limit, 'collectors': 'c0', 'warm': 3,
                   'procs': procs, 'outcome': oc}
    # parameter values given as one-shot iterables
    for src in ('generator', 'map', 'iter', 'range', 'tuple', 'legacy'):
        for gname in ('2x1', '3x1', '2x2'):
            for reps in (1, 2):
                for procs, oc in ((1, None), (2, None)):
                    yield {'leg': 'sources', 'grid': gname, 'reps': reps, 'life': 2, 'limit': None, 'collectors': 'c0',
                           'procs': procs, 'outcome': oc, 'source': src}
    # models that finish by their own criterion (is_running overridden) / whose clock jumps ahead (event-driven)
    for style in ('own_done', 'jump', 'own_execute', 'nested_batch', 'dict_records', 'rebinding', 'dt_attr'):
        for life, limit in ((3, None), (3, 2), (3, 3), (3, 7), (6, 2), (6, 3), (6, 4), (6, 5), (2, None), (1, 3), (9, 4)):
            for coll in ('c0', 'list'):
                for procs, oc in ((1, None), (2, [[[0], [1]], [1, 0]])):
                    yield {'leg': 'own_clock', 'grid': '2x1', 'reps': 1, 'life': life, 'limit': limit, 'collectors': coll,
                           'style': style, 'procs': procs, 'outcome': oc}
    # an execution whose model does not have the requested collector, at every batch position
    for gname, n in (('2x1', 2), ('3x1', 3), ('2x2', 4)):
        for pos in range(n):
            for coll in ('c0', 'list'):
                yield {'leg': 'missing_collector', 'grid': gname, 'reps': 1, 'life': 2, 'limit': None, 'collectors': coll,
                       'procs': 1, 'nocoll': pos}
                for oc in sched.outcomes(n, 2):
                    yield {'leg': 'missing_collector', 'grid': gname, 'reps': 1, 'life': 2, 'limit': None,
                           'collectors': coll, 'procs': 2, 'nocoll': pos,
                           'outcome': [list(map(list, oc[0])), list(oc[1])]}


def reused_list_case(case):
    """One ParameterList object used for several batches with its declaration edited in between."""
    reset_library()
    a_vals = [2, 3]          # the caller keeps this list and grows it, before the first batch that uses it and between batches
    pl = Batching.ParameterList({'a': [1, 2], 'b': [5, 6]})
    plan = [('run', [(1, 5), (1, 6), (2, 5), (2, 6)]), ('remove', 'b'), ('run', [(1, 0), (2, 0)]),
            ('add', ('life', 3)), ('run', [(1, 0), (2, 0)]), ('remove', 'a'), ('add', ('a', [3])), ('run', [(3, 0)]),
            ('add', ('b', 7)), ('run', [(3, 7)]), ('remove', 'b'), ('add', ('b', [5, 6])), ('run', [(3, 5), (3, 6)]),
            # the declaration either follows the caller's list or keeps the values it had when it was declared - the same
            # way in every batch ('run_either' lists both readings)
            ('remove', 'a'), ('remove', 'b'), ('add', ('a', a_vals)), ('grow', 1),
            ('run_either', ([(2, 0), (3, 0), (1, 0)], [(2, 0), (3, 0)])), ('grow', 4),
            ('run_either', ([(2, 0), (3, 0), (1, 0), (4, 0)], [(2, 0), (3, 0)]))]
    life = 2
    n = 0
    reading = None
    for what, arg in plan:
        if what == 'run_either':
            got = Batching.batch_run(BModel, pl, collectors='c0', processes=case['procs'])
            exps = [[ref_records('c0', a, b, life, 10 ** 9) for a, b in alt] for alt in arg]
            n += 1
            fits = [i for i, e in enumerate(exps) if sorted(map(repr, got)) == sorted(map(repr, e)) and reading in (None, i)]
            if not fits:
                raise Violation(f'batch {n} over a ParameterList whose value list the caller extended in place: the executions '
                                f'follow neither the list as it is now nor the list as declared (the same reading in every '
                                f'batch; processes={case["procs"]})', expected=[_short(e) for e in exps], observed=_short(got))
            reading = fits[0]
            continue
        if what == 'remove':
            pl.remove_parameter(arg)
        elif what == 'grow':
            a_vals.append(arg)
        elif what == 'add':
            pl.add_parameter(*arg)
            if arg[0] == 'life':
                life = arg[1]
        else:
            got = Batching.batch_run(BModel, pl, collectors='c0', processes=case['procs'])
            exp = [ref_records('c0', a, b, life, 10 ** 9) for a, b in arg]
            n += 1
            if sorted(map(repr, got)) != sorted(map(repr, exp)):
                raise Violation(f'batch {n} over a ParameterList that was edited since the previous batch does not run its '
                                f'current combinations (processes={case["procs"]})', expected=exp, observed=_short(got))
    return n


def batches(max_n):
    """(grid, repetitions) pairs whose task count is between 2 and max_n."""
    out = []
    for gname in GRIDS:
        for reps in (1, 2, 3):
            n = len(task_list(gname, reps, 2))
            if 2 <= n <= max_n:
                out.append((gname, reps, n))
    return out


def sched_cases(tier):
    max_n, ps = (4, (2, 3)) if tier == 'quick' else (5, (2, 3, 4, 5))
    for gname, reps, n in batches(max_n):
        for p in ps:
            if p > n:
                continue
            for oc in sched.outcomes(n, p):
                for coll, life, limit in (('c0', 2, None), ('list', 4, 3), ('c0', 0, None), ('tuple', 2, 0)):
                    yield {'leg': 'schedule', 'grid': gname, 'reps': reps, 'life': life, 'limit': limit,
                           'collectors': coll, 'procs': p, 'outcome': [list(map(list, oc[0])), list(oc[1])]}


def fault_cases(tier):
    max_n = 3 if tier == 'quick' else 4
    for gname, reps, n in batches(max_n):
        if reps != 1:
            continue
        for boom in range(n):
            for kind in BOOM_KINDS:
                for where in ('step', 'init'):
                    yield {'leg': 'fault', 'grid': gname, 'reps': reps, 'life': 2, 'limit': None, 'collectors': 'c0',
                           'procs': 1, 'boom': boom, 'boom_kind': kind, 'boom_where': where}
                    for p in (2, 3):
                        if p > n:
                            continue
                        for oc in sched.outcomes(n, p):
                            yield {'leg': 'fault', 'grid': gname, 'reps': reps, 'life': 2, 'limit': None,
                                   'collectors': 'c0', 'procs': p, 'boom': boom, 'boom_kind': kind, 'boom_where': where,
                                   'outcome': [list(map(list, oc[0])), list(oc[1])]}


def chunk_fn(ctx, chunk):
    cache = sched.WorkerCache()
    for case in chunk:
        ctx.traces += 1
        ctx.states += 1
        ctx.transitions += len(task_list(case['grid'], case['reps'], case['life']))
        try:
            ctx.outcome((case['grid'], case['reps'], case['procs'], repr(case.get('outcome')),
                         hbfs._guard(run_batch, case, cache)))
        except Violation as v:
            ctx.report(case, v)
            if ctx.full():
                break
    ctx.leg('worker_processes', forks=cache.forks)


def invalid_collectors(ctx):
    case = {'leg': 'invalid', 'grid': '2x1', 'reps': 1, 'life': 2, 'limit': None, 'collectors': 34, 'procs': 1}
    ctx.traces += 1
    try:
        reset_library()
        try:
            Batching.batch_run(BModel, grid_params('2x1', 2), collectors=34)
        except AttributeError:
            return
        raise Violation('collectors=34 was accepted', expected='AttributeError')
    except Violation as v:
        ctx.report(case, v)


def conformance(ctx):
    """Real multiprocessing.Pool, p = 2..16: what it produces must be one of the enumerated outcomes' observables."""
    seen = 0
    orders = set()
    for gname, reps in (('2x2', 1), ('3x1', 1), ('2x1', 2)):
        tasks = task_list(gname, reps, 2)
        n = len(tasks)
        for p in (2, 3, 4, 8, 16):
            params = grid_params(gname, 2)
            # deterministic, seed-dependent run durations so that completion order gets permuted
            params['delay'] = 0.004
            params['jitter'] = ctx.seed + p
            got = Batching.batch_run(BModel, params, collectors='c0', processes=p, repetitions=reps)
            exp_each = [ref_records('c0', a, b, 2, 10 ** 9) for a, b in tasks]
            allowed = {oc[1] for oc in sched.outcomes(n, min(p, n))}
            # map the returned list back to task indices (repetitions make equal results: match greedily)
            order, pool = [], list(range(n))
            ok = True
            for r in got:
                hit = [i for i in pool if exp_each[i] == r]
                if not hit:
                    ok = False
                    break
                order.append(hit[0])
                pool.remove(hit[0])
            seen += 1
            if not ok or pool:
                ctx.report({'leg': 'conformance', 'grid': gname, 'reps': reps, 'procs': p},
                           Violation('real Pool: batch_run lost, duplicated or mixed results', expected=exp_each,
                                     observed=got))
                return
            orders.add((gname, reps, tuple(order)))
            if reps == 1 and tuple(order) not in allowed:
                raise hbfs.HarnessError(f'real Pool produced completion order {order} that the schedule model does '
                                        f'not enumerate (n={n}, p={p})')
    ctx.leg('conformance_real_pool', runs=seen, distinct_completion_orders=len(orders),
            note='sampling of the OS scheduler; binds the schedule model to the real Pool, decides nothing')


def _real_pool_error_child(conn, kind, where):
    params = grid_params('3x1', 2)
    t = task_list('3x1', 1, 2)[1]
    params['boom'] = f'{t[0]},{t[1]}:{kind}{"@init" if where == "init" else ""}'
    try:
        got = Batching.batch_run(BModel, params, collectors='c0', processes=2)
        conn.send(('returned', _short(got)))
    except BaseException as e:      # noqa
        conn.send(('raised', type(e).__name__))


START_CHILD = r'''
import json, multiprocessing, sys
sys.path.insert(0, sys.argv[1]); sys.path.insert(0, sys.argv[2])
import mc.props.c15 as c15
import ECAgent.Batching as Batching
if __name__ == '__main__':
    multiprocessing.set_start_method(sys.argv[3], force=True)
    params = c15.grid_params('3x1', 4)
    got = Batching.batch_run(c15.BModel, params, collectors='c0', processes=2, max_timesteps=int(sys.argv[4]), repetitions=2)
    print('RESULT ' + json.dumps(sorted(map(repr, got))))
'''


def start_method_case(case):
    """The same batch with worker processes that are NOT forked from the caller (start methods spawn / forkserver:
    the workers import everything afresh): the step limit, the repetitions and the collector name still apply."""
    import os
    import subprocess
    import sys
    import json
    tree = os.path.dirname(os.path.dirname(os.path.abspath(Core.__file__)))
    verif = os.path.dirname(os.path.dirname(os.path.dirname(os.path.abspath(__file__))))
    r = subprocess.run([sys.executable, '-c', START_CHILD, tree, verif, case['method'], str(case['limit'])],
                       capture_output=True, text=True, env=dict(os.environ, PYTHONHASHSEED='0'), timeout=300)
    line = next((ln for ln in r.stdout.splitlines() if ln.startswith('RESULT ')), None)
    if line is None:
        raise Violation(f'batch_run with 2 {case["method"]}-started worker processes failed',
                        observed=(r.stderr.strip().splitlines() or [''])[-1])
    got = json.loads(line[7:])
    exp = sorted(repr(ref_records('c0', a, b, 4, case['limit'])) for a, b in task_list('3x1', 2, 4))
    if got != exp:
        raise Violation(f'batch_run with 2 {case["method"]}-started worker processes (max_timesteps={case["limit"]}, 2 '
                        f'repetitions): results differ from one result per execution', expected=exp[:3], observed=got[:3])
    return len(got)


def real_pool_errors(ctx):
    """Binds the modelled hang (sched.PoolHang) to the real pool: a failing execution under the real
    multiprocessing.Pool, run in a child process so that a batch that never returns can be told from one that
    raises; the child gets 60 s for a batch that takes a few milliseconds."""
    import multiprocessing
    mp = multiprocessing.get_context('fork')
    for kind in BOOM_KINDS:
        for where in ('step', 'init'):
            ctx.traces += 1
            here, there = mp.Pipe(False)
            pr = mp.Process(target=_real_pool_error_child, args=(there, kind, where))
            pr.start()
            there.close()
            msg = here.recv() if here.poll(60) else None
            if msg is None:
                pr.kill()
            pr.join()
            case = {'leg': 'real_pool_error', 'boom_kind': kind, 'boom_where': where}
            if msg is None:
                ctx.report(case, Violation(f'real Pool, 2 processes: batch_run has not returned after 60 s when one '
                                           f'execution raises {kind} ({where}); the error never reaches the caller',
                                           expected='the error in the caller', observed='hang'))
                return
            if msg[0] != 'raised':
                ctx.report(case, Violation(f'real Pool, 2 processes: an execution raising {kind} ({where}) was '
                                           f'dropped', expected='an error in the caller', observed=msg[1]))
                return
            ctx.outcome(('real_pool_error', kind, where, msg[1]))
    ctx.leg('real_pool_errors', runs=2 * len(BOOM_KINDS),
            note='the real pool with a failing execution of every error kind: raises, never hangs')


# the cheap legs run once more under the runner's ambient configurations (python -O, other logger levels)
AMBIENT_LEGS = True


def run(ctx):
    invalid_collectors(ctx)
    cases = list(serial_cases())
    sc = list(sched_cases(ctx.tier))
    fc = list(fault_cases(ctx.tier))
    lc = list(long_cases()) + list(extra_cases())
    allc = cases + sc + fc + lc
    # group cases that share worker executions (same batch) into the same chunk so the cache is effective
    allc.sort(key=lambda c: (c['grid'], c['reps'], c['life'], str(c['limit']), str(c['collectors']), c.get('boom', -1)))
    size = max(1, len(allc) // (ctx.procs * 2))
    par.pmap(ctx, chunk_fn, [allc[i:i + size] for i in range(0, len(allc), size)], procs=ctx.procs)
    ctx.leg('serial', batches=len(cases))
    ctx.leg('schedule', executions=len(sc))
    ctx.leg('fault', executions=len(fc))
    for c in (cases[7], sc[len(sc) // 2], fc[-1]):
        ctx.sample(c)
    if not ctx.violations:
        for case in ({'leg': 'reused_list', 'procs': 1}, {'leg': 'reused_list', 'procs': 2}):
            ctx.traces += 1
            try:
                ctx.transitions += hbfs._guard(reused_list_case, case)
            except Violation as v:
                ctx.report(case, v)
    if not ctx.violations:
        for case in pool_reuse_cases():
            ctx.traces += 1
            ctx.transitions += 3
            try:
                ctx.outcome(hbfs._guard(pool_reuse_case, case))
            except Violation as v:
                ctx.report(case, v)
        ctx.leg('pool_reuse_real_pool', sequences=4)
    if ctx.small:
        return
    if not ctx.violations:
        for case in ({'leg': 'start_method', 'method': 'spawn', 'limit': 3}, {'leg': 'start_method', 'method': 'forkserver', 'limit': 2}):
            ctx.traces += 1
            try:
                ctx.transitions += hbfs._guard(start_method_case, case)
                ctx.outcome(('start_method', case['method']))
            except Violation as v:
                ctx.report(case, v)
        ctx.leg('start_methods', note='real pool with spawn- and forkserver-started workers')
    if not ctx.violations:
        real_pool_errors(ctx)
    if not ctx.violations:
        conformance(ctx)


def replay(case):
    if case['leg'] == 'invalid':
        try:
            Batching.batch_run(BModel, grid_params('2x1', 2), collectors=34)
        except AttributeError:
            return
        raise Violation('collectors=34 was accepted', expected='AttributeError')
    if case['leg'] == 'pool_reuse':
        hbfs._guard(pool_reuse_case, case)
        return
    if case['leg'] == 'reused_list':
        hbfs._guard(reused_list_case, case)
        return
    if case['leg'] == 'start_method':
        hbfs._guard(start_method_case, case)
        return
    if case['leg'] == 'real_pool_error':
        from mc.engine.report import Ctx      # noqa
        class _C:      # minimal context
            traces = 0
            def __init__(self): self.v = None
            def report(self, c, v): self.v = v
            def outcome(self, o): pass
            def leg(self, *a, **k): pass
        c = _C()
        global BOOM_KINDS
        keep, BOOM_KINDS = BOOM_KINDS, {case['boom_kind']: BOOM_KINDS[case['boom_kind']]}
        try:
            real_pool_errors(c)
        finally:
            BOOM_KINDS = keep
        if c.v is not None:
            raise c.v
        return
    if case['leg'] == 'conformance':
        raise Violation('conformance cases are not replayable deterministically (real OS scheduling)')
    hbfs._guard(run_batch, case, None)
