"""C04 - the environment holds exactly the live agents; failed operations leave no trace.

E1 history BFS (add/remove over a pool with colliding ids) to the fixpoint per world; in every reached state the
whole fault menu (duplicate id, unknown id, strict lookup of unknown id, out-of-range placement on every axis
and side) is executed and must raise the documented error and leave the full snapshot bit-identical.
"""
import math

import numpy as np

from mc.engine import hbfs, par
from mc.engine.report import Violation
from mc.engine.seams import Canon, public_snapshot, new_model

import ECAgent.Core as Core
import ECAgent.Environments as Envs


class X(Core.Component):
    pass


class Y(Core.Component):
    pass


class XS(X):
    """A component class derived from another component class (an agent may carry both)."""


# (pool key, agent id, component types fixed before joining)
# PC: the library's own PositionComponent, attached by the user with the SAME coordinates on two agents (plain
# environment only - spatial worlds attach their own)
AGENTS = [('a1', 'a1', ('X',)), ('a1b', 'a1', ('X', 'Y')), ('a2', 'a2', ('PC',)), ('a3', 'a3', ('XS', 'Y', 'X', 'PC')),
          ('a4f', 'a4', ('X',))]      # a4f: agent and component were built for ANOTHER model (see FOREIGN)
FOREIGN = {'a4f'}
TYPES = {'X': X, 'Y': Y, 'XS': XS}

# kind -> (constructor args, continuous?, in-range position)
WORLDS = {
    'plain': None,
    'space_3x2x0': ('SpaceWorld', (3, 2, 0), (1.5, 0.5, 0)),
    'discrete_3x2x2': ('DiscreteWorld', (3, 2, 2), (2, 1, 1)),
    'line_3': ('LineWorld', (3,), (2,)),
    'grid_3x2': ('GridWorld', (3, 2), (1, 1)),
    'discrete_0x2x3': ('DiscreteWorld', (0, 2, 3), (0, 1, 2)),
    'discrete_3x0x2': ('DiscreteWorld', (3, 0, 2), (1, 0, 1)),
    'space_2.5x0x1': ('SpaceWorld', (2.5, 0, 1), (2.5, 0, 0.5)),
    'space_0.5x2x0': ('SpaceWorld', (0.5, 2, 0), (0.25, 1, 0)),     # an extent strictly between 0 and 1
    'space_3x2x0_wrap': ('SpaceWorld', (3, 2, 0), (1.5, 0.5, 0), True),       # toroidal worlds reject placements too
    'grid_3x2_wrap': ('GridWorld', (3, 2), (1, 1), True),
    'discrete_3x2x2_wrap': ('DiscreteWorld', (3, 2, 2), (2, 1, 1), True),
}
QUICK = ['plain', 'space_3x2x0', 'discrete_3x2x2', 'line_3', 'grid_3x2', 'space_0.5x2x0', 'space_3x2x0_wrap',
         'grid_3x2_wrap', 'space_2.5x0x1', 'discrete_0x2x3']
# identifiers that are not strings (pool name -> the id really used): tuples, numbers, the empty tuple
ODD_IDS = {'a1': (0, 1), 'a2': 7, 'a3': (), 'a4': 2.5, 'zz': ('zz',)}

META = {
    'rule': 'BFS over add/remove histories per world kind to the fixpoint; in every state the complete fault menu '
            'is run; distinct_nontrivial counts distinct (resident order, last fault-menu outcome) observations',
    'alphabet': {'agents(key,id,components)': AGENTS, 'worlds': WORLDS,
                 'ops': 'add(key) at a fixed in-range position, remove(id in a1,a2,a3,zz)',
                 'fault_menu': 'duplicate id by another object and by the same object; remove/strict lookup of '
                               'unknown and of non-resident ids; placement one step outside on each side of each '
                               'positive axis (grid: -1, extent; continuous: -0.5, extent+0.5), alone and combined'},
    'bounds': {'quick': 'worlds ' + ', '.join(QUICK) + ' to the fixpoint', 'thorough': 'all worlds incl. zero-extent '
               'axes to the fixpoint'},
    'assumptions': ["agents' component sets are not modified while resident (C03's dimension)",
                    'cells table dropped from the snapshot (no cell-component operation in the alphabet)'],
}


class World:
    pass


class Harness:
    def __init__(self, kind, aliases=False, foreign=False, odd_ids=False):
        self.kind = kind
        self.odd_ids = odd_ids
        self.R = (lambda name: ODD_IDS.get(name, name)) if odd_ids else (lambda name: name)
        self.aliases = aliases      # addAgent / removeAgent / getAgents (deprecated spellings) as entry points
        self.foreign = foreign      # the pool includes a4f, an agent built for another model
        self.config = {'world': kind, 'aliases': aliases, 'foreign': foreign, 'odd_ids': odd_ids}
        self.agents = [a for a in AGENTS if foreign or a[0] not in FOREIGN]
        self.spec = WORLDS[kind]
        self.cn = Canon(drop={('DiscreteWorld', 'cells'), ('LineWorld', 'cells'), ('GridWorld', 'cells')})
        self.keys = [a[0] for a in self.agents]
        self.idof = {a[0]: a[1] for a in self.agents}
        self.ids = ['a1', 'a2', 'a3'] + (['a4'] if foreign else []) + ['zz']
        self._ops = [['look']] + [['add', k] for k in self.keys] + [['remove', i] for i in self.ids] + [['complete']]


    def fresh(self):
        w = World()
        w.model = new_model(seed=1)
        w.pos = ()
        if self.spec:
            cls, args, pos = self.spec[:3]
            wrap = len(self.spec) > 3 and self.spec[3]
            w.model.environment = getattr(Envs, cls)(w.model, *args, wrap_env=wrap)
            w.pos = pos
        w.agents = {}
        w.comps = []
        w.m2 = new_model(seed=2)      # the model the foreign agent was built for: never touched by this one's environment
        # a2 belongs to a class that carries CLASS components (a home position and an X): they are the class's, the
        # instance joins, leaves and is placed like any other agent
        Homed = type('Homed', (Core.Agent,), {})
        Homed.add_class_component(Envs.PositionComponent(Homed, w.model, 1, 1, 1))
        Homed.add_class_component(X(Homed, w.model))
        for key, aid, types in self.agents + [('probe', 'probe', ('X',)), ('ghost', 'ghost', ())]:
            # ghost: an agent built without a model (Agent(id, None)); it never joins: it is only offered where it is refused
            owner = None if key == 'ghost' else w.m2 if key in FOREIGN else w.model
            a = (Homed if key == 'a2' else Core.Agent)(self.R(aid), owner)
            for T in types:
                if T == 'PC':
                    if self.spec:
                        continue
                    c = Envs.PositionComponent(a, owner, 1.0, 2.0, 0.0)
                    a.add_component(c)
                    w.comps.append(c)
                    continue
                c = TYPES[T](a, owner)
                a.add_component(c)
                w.comps.append(c)
            w.agents[key] = a
        w.ref = []          # resident keys in joining order
        w.last = None
        w.m2_before = public_snapshot(w.m2)
        return w

    def ops(self, w):
        return self._ops if w.model.is_running() else self._ops[:-1]

    def canon(self, w):
        return self.cn(w.model, [w.agents[k] for k in self.keys + ['probe']], w.comps)

    def snapshot(self, w):
        # documented attributes only: environment map, every pool agent's components (incl. a stray position
        # component), positions, component listings
        names = {id(a): k for k, a in w.agents.items()}
        names.update({id(c): f'comp{i}' for i, c in enumerate(w.comps)})
        ghost = w.agents['ghost']
        return (public_snapshot(w.model, [w.agents[k] for k in self.keys + ['probe', 'ghost']], names),
                ('ghost.model', ghost.model is None))

    def _resident_ids(self, w):
        return {self.idof[k]: k for k in w.ref}

    def apply(self, w, op):
        env = w.model.environment
        res = self._resident_ids(w)
        if op[0] == 'look':
            self.check(w)          # reading is an operation too (whatever a read remembers must not show later)
            return
        if op[0] == 'complete':
            w.model.complete()      # a finished model still has an environment: agents may leave and (re-)join
            return

        if op[0] == 'add':
            key = op[1]
            aid = self.idof[key]
            if aid in res:
                self._rejected(w, lambda: env.add_agent(w.agents[key], *w.pos), Core.DuplicateAgentError,
                               f'add of {key} while id {aid} is resident')
            elif key in FOREIGN:
                # an agent built for another model: the environment may take it (then it is resident like any other)
                # or refuse it - but a refusal leaves no trace
                before = self.snapshot(w)
                try:
                    env.add_agent(w.agents[key], *w.pos)
                except Exception as e:      # noqa
                    after = self.snapshot(w)
                    if after != before:
                        raise Violation(f'add of {key} (built for another model) failed with {type(e).__name__}({e}) '
                                        f'and left a trace', expected='snapshot unchanged', observed=_diff(before, after))
                    return
                w.ref.append(key)
            else:
                (env.addAgent if self.aliases and not self.spec else env.add_agent)(w.agents[key], *w.pos)
                w.ref.append(key)
                if self.spec:
                    p = w.agents[key][Envs.PositionComponent]
                    got = p.xyz() if p is not None else None
                    want = tuple(w.pos) + (0,) * (3 - len(w.pos))
                    if got is None or tuple(got) != want:
                        raise Violation(f'{key} placed at {got}, requested {want}', expected=want, observed=got)
        else:
            aid = op[1]
            if aid in res:
                (env.removeAgent if self.aliases else env.remove_agent)(self.R(aid))      # removing a present agent always succeeds
                w.ref.remove(res[aid])
                if self.spec and Envs.PositionComponent in w.agents[res[aid]]:
                    raise Violation(f'{res[aid]} still carries a position after leaving the world')
            else:
                self._rejected(w, lambda: env.remove_agent(self.R(aid)), Core.AgentNotFoundError,
                               f'remove of non-resident id {self.R(aid)!r}')

    def _rejected(self, w, call, exc_type, what):
        before = self.snapshot(w)
        try:
            call()
        except Exception as e:
            if exc_type is Exception:
                ok = isinstance(e, Exception) and not isinstance(e, (Core.DuplicateAgentError,
                                                                      Core.AgentNotFoundError, TypeError,
                                                                      AttributeError, KeyError))
            else:
                ok = type(e) is exc_type
            if not ok:
                raise Violation(f'{what}: raised {type(e).__name__}({e}) instead of {exc_type.__name__}',
                                expected=exc_type.__name__, observed=type(e).__name__)
            after = self.snapshot(w)
            if after != before:
                raise Violation(f'{what}: rejected with {type(e).__name__} but the model changed',
                                expected='snapshot unchanged', observed=_diff(before, after))
            return
        raise Violation(f'{what}: accepted', expected=exc_type.__name__, observed='no exception')

    def check(self, w):
        env = w.model.environment
        exp = [w.agents[k] for k in w.ref]
        if public_snapshot(w.m2) != w.m2_before:
            raise Violation('another model (the one agent a4f was built for) changed although nothing was done to it',
                            expected='unchanged', observed=_diff(w.m2_before, public_snapshot(w.m2)))
        if len(env) != len(exp):
            raise Violation('len(env) differs from the number of live agents', expected=len(exp), observed=len(env))
        it = list(iter(env))
        if len(it) != len(exp) or any(a is not b for a, b in zip(it, exp)):
            raise Violation('iteration order differs from joining order', expected=list(w.ref),
                            observed=[self._key(w, a) for a in it])
        for attempt in range(3):
            ga = env.getAgents() if self.aliases else env.get_agents()
            if not isinstance(ga, list) or len(ga) != len(exp) or any(a is not b for a, b in zip(ga, exp)):
                raise Violation('get_agents() differs from the live agents in joining order'
                                + (' (after the caller modified an earlier listing / called shuffle)' if attempt else ''),
                                expected=list(w.ref),
                                observed=[self._key(w, a) for a in ga] if isinstance(ga, list) else repr(ga))
            # what a caller may do with a listing must not show in the next one; nor may the library's own shuffle
            if attempt == 0:
                ga.reverse()
                ga.append(None)
                del ga[:1]
            else:
                st = w.model.random.getstate()
                env.shuffle()
                w.model.random.setstate(st)      # the read-back must not advance the model's generator
        if len(env) != len(exp) or [a for a in env] != exp:
            raise Violation('len / iteration changed after listings were modified or shuffled')
        res = self._resident_ids(w)
        for name in self.ids + ['probe', env.id]:      # the environment's own id names no agent in it
            aid = self.R(name)
            want = w.agents[res[name]] if name in res else None
            got = env.get_agent(aid)
            if got is not want:
                raise Violation(f'get_agent({aid!r}) answers the wrong object', expected=res.get(name),
                                observed=self._key(w, got))
            if want is not None:
                if env.get_agent(aid, True) is not want:
                    raise Violation(f'get_agent({aid!r}, True) answers the wrong object')
            else:
                self._rejected(w, lambda: env.get_agent(aid, True), Core.AgentNotFoundError,
                               f'strict lookup of non-resident id {aid}')
        # ---- fault menu --------------------------------------------------------------------------------
        outcomes = []
        for aid, key in res.items():
            for other in self.keys:
                if self.idof[other] == aid:
                    self._rejected(w, lambda o=other: env.add_agent(w.agents[o], *w.pos), Core.DuplicateAgentError,
                                   f'add of {other} while {key} (same id) is resident')
                    outcomes.append(('dup', other))
        for aid in self.ids:
            if aid not in res:
                self._rejected(w, lambda i=self.R(aid): env.remove_agent(i), Core.AgentNotFoundError,
                               f'remove of non-resident id {self.R(aid)!r}')
        if self.spec:
            cls, args, pos = self.spec[:3]
            dims = tuple(args) + (0,) * (3 - len(args))
            cont = cls == 'SpaceWorld'
            full = tuple(pos) + (0,) * (3 - len(pos))
            outs = []
            for ax in range(3):
                if dims[ax] > 0:
                    lo = -0.5 if cont else -1
                    hi = dims[ax] + 0.5 if cont else dims[ax]
                    outs.append((ax, lo))
                    outs.append((ax, hi))
                    # the nearest representable coordinates outside: one ulp above the last / below the first
                    outs.append((ax, math.nextafter(dims[ax] if cont else dims[ax] - 1, math.inf)))
                    outs.append((ax, math.nextafter(0.0, -math.inf)))
                    if not cont:
                        outs.append((ax, dims[ax] + 5))
                        outs.append((ax, -0.5))                 # fractional coordinates just outside a grid
                        outs.append((ax, dims[ax] - 0.5))
            bad = []
            for ax, v in outs:
                p = list(full)
                p[ax] = v
                bad.append(tuple(p))
            if len(outs) >= 2:   # two axes out at once
                p = list(full)
                for ax, v in outs[:1] + outs[-1:]:
                    p[ax] = v
                bad.append(tuple(p))
            narg = len(pos)
            for p in bad:
                if any(p[i] != 0 for i in range(narg, 3)):
                    continue
                args_p = p[:narg]
                # a non-resident pool agent and the never-joining probe are both tried
                victims = ['probe', 'ghost'] + [k for k in self.keys if self.idof[k] not in res][:1]
                for k in victims:
                    self._rejected(w, lambda k=k, a=args_p: env.add_agent(w.agents[k], *a), Exception,
                                   f'placement of {k} at {p} outside world {dims}')
                    if Envs.PositionComponent in w.agents[k]:
                        raise Violation(f'rejected placement left a PositionComponent on {k}')
                    outcomes.append(('oob', p))
        if self.spec:
            # in-range placements whose coordinates are numbers of unusual types: taken (then the probe is resident
            # and can leave again) or refused - either way without a trace
            import decimal
            import fractions
            zero = [decimal.Decimal(0), fractions.Fraction(0), np.float32(0), np.int8(0), np.float64(0.0), False]
            narg = len(self.spec[2])
            for z in zero:
                before = self.snapshot(w)
                try:
                    env.add_agent(w.agents['probe'], *([z] * narg))
                except Exception as e:      # noqa
                    if self.snapshot(w) != before:
                        raise Violation(f'placement of the probe at coordinates of type {type(z).__name__} failed with '
                                        f'{type(e).__name__} and left a trace', expected='snapshot unchanged',
                                        observed=_diff(before, self.snapshot(w)))
                    outcomes.append(('odd', type(z).__name__, 'refused'))
                    continue
                if env.get_agent('probe') is not w.agents['probe'] or Envs.PositionComponent not in w.agents['probe']:
                    raise Violation(f'placement of the probe at coordinates of type {type(z).__name__} returned normally '
                                    f'but the probe is not resident with a position')
                env.remove_agent('probe')
                if self.snapshot(w) != before:
                    raise Violation(f'the probe placed at coordinates of type {type(z).__name__} and removed again left a '
                                    f'trace', expected='snapshot unchanged', observed=_diff(before, self.snapshot(w)))
                outcomes.append(('odd', type(z).__name__, 'taken'))
        w.last = (tuple(w.ref), len(outcomes))

    def _key(self, w, a):
        for k, o in w.agents.items():
            if o is a:
                return k
        return repr(a)

    def refstate(self, w):
        return (tuple(w.ref), w.model.is_running())

    def outcome(self, w):
        return w.last


def crowd_case(case):
    """Well over a thousand agents join; every 7th leaves, every 21st comes back; a duplicate and an unknown id are
    tried at several points.  Length, iteration, listing and lookup agree with the joining order throughout."""
    from mc.engine.seams import reset_library
    reset_library()
    n, kind = case['n'], case['kind']
    m = new_model(seed=1)
    pos = ()
    if kind == 'grid':
        m.environment = Envs.GridWorld(m, 40, 40)
        pos = None
    env = m.environment
    agents = [Core.Agent(f'c{i}', m) for i in range(n)]
    for a in agents[::3]:
        a.add_component(X(a, m))
    res = []

    def place(i):
        if pos is None:
            env.add_agent(agents[i], i % 40, (i // 40) % 40)
        else:
            env.add_agent(agents[i])
        res.append(i)

    def judge(what):
        if len(env) != len(res):
            raise Violation(f'{what}: len(env)', expected=len(res), observed=len(env))
        got = [a.id for a in env]
        if got != [f'c{i}' for i in res] or [a.id for a in env.get_agents()] != got:
            k = next((k for k, (g, i) in enumerate(zip(got, res)) if g != f'c{i}'), min(len(got), len(res)))
            raise Violation(f'{what}: iteration / listing differs from joining order at position {k} ({kind}, {n} '
                            f'agents)', expected=[f'c{i}' for i in res[max(0, k - 1):k + 3]], observed=got[max(0, k - 1):k + 3])
        for i in (0, 6, 7, n // 2, n - 1):
            want = agents[i] if i in resident else None
            if env.get_agent(f'c{i}') is not want:
                raise Violation(f'{what}: get_agent(c{i})', expected=want is not None, observed=env.get_agent(f'c{i}') is not None)
        for bad in (res[0], res[len(res) // 2], res[-1]):
            try:
                dup = Core.Agent(f'c{bad}', m)
                (env.add_agent(dup, 0, 0) if pos is None else env.add_agent(dup))
            except Core.DuplicateAgentError:
                pass
            else:
                raise Violation(f'{what}: a second agent with the resident id c{bad} was accepted')
        try:
            env.remove_agent('nobody')
        except Core.AgentNotFoundError:
            pass
        else:
            raise Violation(f'{what}: removal of an unknown id accepted')
        if len(env) != len(res):
            raise Violation(f'{what}: a rejected operation changed len(env)', expected=len(res), observed=len(env))

    for i in range(n):
        place(i)
    resident = set(res)
    judge('after all joined')
    for i in range(0, n, 7):
        env.remove_agent(f'c{i}')
        res.remove(i)
    resident = set(res)
    judge('after every 7th left')
    for i in range(0, n, 21):
        place(i)
    resident = set(res)
    judge('after every 21st came back')
    xs = m.systems[X]
    want = [i for i in res if i % 3 == 0]
    if [c.agent.id for c in xs] != [f'c{i}' for i in want]:
        raise Violation(f'component listing of the crowd differs from the residents\' components in joining order')
    return 3 * n


def renamed_case(case):
    """An agent's id attribute is re-assigned while it lives in the environment (to a name nobody uses, or two residents
    swap theirs): the environment knows its agents under the ids they JOINED with - removal by that id removes that
    agent and nobody else, lookups by that id find it."""
    from mc.engine.seams import reset_library
    reset_library()
    m = new_model(seed=1)
    if case['kind'] == 'grid':
        m.environment = Envs.GridWorld(m, 3, 3)
    env = m.environment
    a, b, c = (Core.Agent(k, m) for k in ('a', 'b', 'c'))
    for i, ag in enumerate((a, b, c)):
        ag.add_component(X(ag, m))
        (env.add_agent(ag, i, 0) if case['kind'] == 'grid' else env.add_agent(ag))
    if case['how'] == 'fresh_name':
        a.id = 'renamed'
    else:
        a.id, c.id = c.id, a.id
    if env.get_agent('a') is not a or env.get_agent('c') is not c or [x for x in env] != [a, b, c]:
        raise Violation(f'after the id attributes of residents were re-assigned ({case["how"]}): lookup / iteration by joining id')
    env.remove_agent('a')
    left = [x for x in env]
    if left != [b, c] or env.get_agent('a') is not None or env.get_agent('c') is not c or len(env) != 2:
        raise Violation(f'remove_agent("a") after the id attributes of residents were re-assigned ({case["how"]}, {case["kind"]}): '
                        f'the agent that joined as "a" leaves and nobody else', expected=['b', 'c (joined as)'],
                        observed=[('a' if x is a else 'b' if x is b else 'c') for x in left])
    if [comp.agent for comp in (m.systems[X] or [])] != [b, c]:
        raise Violation('component listing after that removal', expected=['b', 'c'])
    return 3


def _diff(a, b):
    sa, sb = repr(a), repr(b)
    i = 0
    while i < min(len(sa), len(sb)) and sa[i] == sb[i]:
        i += 1
    return {'before': sa[max(0, i - 80):i + 80], 'after': sb[max(0, i - 80):i + 80]}


# the cheap legs run once more under the runner's ambient configurations (python -O, other logger levels)
AMBIENT_LEGS = True


def run(ctx):
    kinds = QUICK if ctx.tier == 'quick' else list(WORLDS)
    fk = ('plain', 'grid_3x2') if ctx.tier == 'quick' else tuple(kinds)
    plan = [(k, False, False) for k in kinds] + [('plain', True, False), ('grid_3x2', True, False)] + \
           [(k, False, True) for k in fk] + [('plain', False, False, True), ('line_3', False, False, True)]
    if ctx.small:
        plan = [(k, False, False) for k in kinds[:8]] + [('plain', False, False, True)]
    for kind in ('plain', 'grid'):
        case = {'leg': 'crowd', 'kind': kind, 'n': 150 if ctx.small else 1500}
        ctx.traces += 1
        try:
            ctx.transitions += hbfs._guard(crowd_case, case)
            ctx.outcome(('crowd', kind))
        except Violation as v:
            ctx.report(case, v)
            return
    for kind in ('plain', 'grid'):
        for how in ('fresh_name', 'swap'):
            case = {'leg': 'renamed', 'kind': kind, 'how': how}
            ctx.traces += 1
            try:
                ctx.transitions += hbfs._guard(renamed_case, case)
            except Violation as v:
                ctx.report(case, v)
                return
    ctx.leg('crowd', note='1500 agents in the plain environment and on a 40x40 grid; residents whose id attribute is re-assigned')
    # the foreign-agent legs are the largest: first, for load balance (one harness worker per leg)
    plan.sort(key=lambda p: (not p[2], p[0] != 'plain'))
    par.pmap(ctx, explore_leg, plan, procs=ctx.procs)


def explore_leg(ctx, item):
    kind, al, fo = item[:3]
    odd = len(item) > 3 and item[3]
    h = Harness(kind, al, fo, odd)
    name = kind + ('+deprecated_entry_points' if al else '') + ('+foreign_agent' if fo else '') + ('+odd_ids' if odd else '')
    # the model is also deep-copied in every state of the plain / grid legs (hbfs clone mode)
    r = hbfs.explore(ctx, h, name, max_depth=30, procs=1, clone=(kind in ('plain', 'grid_3x2') and not al and not fo))
    ctx.leg(name, **r)
    if not r.get('fixpoint') and not ctx.violations:
        ctx.cap(f'{name}: fixpoint not reached')


def replay(case):
    if case['leg'] == 'crowd':
        hbfs._guard(crowd_case, case)
        return
    if case['leg'] == 'renamed':
        hbfs._guard(renamed_case, case)
        return
    hbfs.replay_case(Harness(case['config']['world'], case['config'].get('aliases', False),
                             case['config'].get('foreign', False), case['config'].get('odd_ids', False)), case)
