"""C20 - class components and default tags belong to exactly one agent class.

E1 history BFS over class-level attach/detach/default-tag operations on a fresh class hierarchy
(Agent, A(Agent), A1(A), B(Agent), Environment, E(Environment)); in every state every class is read back in full
and instances are created without / with an explicit tag and given instance-level components.
"""
from mc.engine import hbfs
from mc.engine.report import Violation
from mc.engine.seams import Canon, new_model

import numpy as np

import ECAgent.Core as Core
import ECAgent.Environments as Envs


class X(Core.Component):
    pass


class Y(Core.Component):
    pass


class Z(Core.Component):
    pass


class F(Core.Component):
    """A component that is falsy while empty (a container-like component defining __len__)."""

    def __len__(self):
        return 0


TYPES = {'X': X, 'Y': Y, 'Z': Z, 'F': F}
CLASSES = ['Agent', 'A', 'A1', 'B', 'Environment', 'E', 'H', 'R', 'R1', 'Fac', 'FC']

META = {
    'rule': 'BFS over class-level histories on a fresh hierarchy; full read-back of every class and instance creation '
            'in every state; distinct_nontrivial counts distinct (per-class stores and tags, last outcome) observations',
    'alphabet': {'classes': 'Agent, A(Agent), A1(A), B(Agent), Environment, E(Environment) - subclasses created fresh '
                            'per execution, library classes reset to pristine',
                 'ops': 'add_class_component(cls, X|Y) incl. duplicates, remove_class_component(cls, X|Y) incl. absent, '
                        'cls.tag = 0|3, defining a new subclass of Agent / A / Environment mid-history',
                 'per-state probes': 'explicit tags also as numpy integer scalars; '
                                     'len/contains/getitem/get_class_component(strict)/has_class_component/tag on every '
                                     'class; instance without tag, with tag 7 and with tag 0; instance-level '
                                     'add_component X on a fresh instance'},
    'bounds': {'quick': 'full alphabet depth 3; classes A, A1, B with type X only: fixpoint', 'thorough': 'full alphabet depth 4; same fixpoint leg'},
    'assumptions': ['canonical state = per-class (store order and identity, default tag, id) read from the metaclass '
                    'fields; environments are instantiated through their own constructor (no explicit tag possible)'],
}


class World:
    pass


class Harness:
    def __init__(self, op_classes=None, op_types=('X', 'Y'), subclassing=True, extras=False):
        self.op_classes = list(op_classes or [c for c in CLASSES if c not in ('R', 'H', 'Fac')])      # R, H: checked, not operated on
        self.op_types = list(op_types)
        self.subclassing = subclassing
        self.extras = extras      # components owned by a second model, the first model finishing, cloned classes
        self.config = {'op_classes': self.op_classes, 'op_types': self.op_types, 'subclassing': subclassing,
                       'extras': extras}
        self.cn = Canon()
        self._ops = []
        for c in self.op_classes:
            for T in self.op_types:
                self._ops.append(['attach', c, T])
                self._ops.append(['detach', c, T])
            self._ops.append(['tag', c, 0])
            self._ops.append(['tag', c, 3])
        if extras:
            self._ops.append(['complete'])
            for c in self.op_classes:
                for T in self.op_types:
                    self._ops.append(['attach2', c, T])
            self._ops.append(['clone', 'A'])

    def fresh(self):
        w = World()
        w.model = new_model(seed=1)

        class A(Core.Agent):
            pass

        class A1(A):
            pass

        class B(Core.Agent):
            pass

        class E(Core.Environment):
            pass

        class H(Core.Agent):
            """A composite agent: its constructor first builds a member of a sibling class and a private sub-model
            (whose environment is an agent too) and only then initialises itself."""

            def __init__(self, id, model, tag=None):
                self.member = A(f'{id}_member', model)
                self.inner = Core.Model()
                super().__init__(id, model, tag)

        registry = []

        class R(Core.Agent):
            """A class that keeps a registry of its subclasses - without handing on to super().__init_subclass__()."""

            def __init_subclass__(cls, **kw):
                registry.append(cls)

        class R1(R):
            pass

        class Fac(Core.Agent):
            """A parent class whose __new__ is a factory: asked for a 'child...' it hands out an instance of FC."""

            def __new__(cls, id, *a, **k):
                if cls is Fac and str(id).startswith('child'):
                    return super().__new__(FC)
                return super().__new__(cls)

        class FC(Fac):
            pass

        w.cls = {'Agent': Core.Agent, 'A': A, 'A1': A1, 'B': B, 'Environment': Core.Environment, 'E': E, 'H': H,
                 'R': R, 'R1': R1, 'Fac': Fac, 'FC': FC, 'SpaceWorld': Envs.SpaceWorld}
        # the model already has inhabitants, and its environment carries a tag of its own
        w.model.environment.add_agent(Core.Agent('resident', w.model))
        w.model.environment.tag = 2
        w.sleepers = []      # (instance, tag it must have, class name): created without a tag and not looked at since
        w.shared = {T: TYPES[T](A, w.model) for T in ('X', 'Y')}      # ONE object that may be attached to several classes
        w.comp = {(c, T): TYPES[T](w.cls[c], w.model) for c in CLASSES for T in ('X', 'Y', 'F')}
        w.m2 = new_model(seed=2)      # a later model in the same process: its components are offered to the same classes
        w.comp2 = {(c, T): TYPES[T](w.cls[c], w.m2) for c in CLASSES for T in ('X', 'Y', 'F')}
        w.ns = {'__module__': __name__}      # ONE namespace dict a class factory passes to type() again and again
        w.ref = {c: {'comps': [], 'tag': 0} for c in w.cls}
        w.last = None
        return w

    def ops(self, w):
        ops = list(self._ops)
        if self.subclassing:
            ops += [['tag', 'SpaceWorld', 3], ['tag', 'SpaceWorld', 0], ['attach_shared', 'A', 'X'], ['attach_shared', 'B', 'X']]
        for parent in (('Agent', 'A', 'Environment') if self.subclassing else ()):
            n = 'N_' + parent
            if n in w.cls:
                ops += [['attach', n, 'X'], ['tag', n, 3]]
                if n + '#2' not in w.cls:
                    ops.append(['subclass', parent])       # a class factory called twice: same qualified name
                else:
                    ops += [['attach', n + '#2', 'X'], ['detach', n + '#2', 'X']]
            else:
                ops.append(['subclass', parent])
        return ops

    def apply(self, w, op):
        kind = op[0]
        if kind == 'complete':
            w.model.complete()      # the model the first components belong to has finished; classes outlive it
            w.last = ('complete',)
            return
        c = op[1]
        if kind == 'clone':
            # a class re-created from another class's namespace (what a class decorator that rebuilds the class
            # does): a new class - it starts with an empty store and the default tag, and shares nothing
            if 'A_clone' in w.cls:
                return
            src = w.cls[c]
            w.cls['A_clone'] = type(src)(src.__name__, src.__bases__, dict(src.__dict__))
            w.ref['A_clone'] = {'comps': [], 'tag': 0}
            for T in ('X', 'Y', 'F'):
                w.comp[('A_clone', T)] = TYPES[T](w.cls['A_clone'], w.model)
                w.comp2[('A_clone', T)] = TYPES[T](w.cls['A_clone'], w.m2)
            w.last = ('clone',)
            return
        if kind == 'attach2':
            T = op[2]
            cls, ref = w.cls[c], w.ref[c]
            if T in ref['comps']:
                # also when the component already attached belongs to a model that has finished: a duplicate is a
                # duplicate until it is removed
                self._rejected(w, lambda: cls.add_class_component(w.comp2[(c, T)]), ValueError,
                               f'duplicate attach of {T} (owned by a second model) to {c}')
                w.last = ('attach2', 'rejected')
            else:
                cls.add_class_component(w.comp2[(c, T)])
                ref['comps'].append(T)
                ref.setdefault('m2', set()).add(T)
                w.last = ('attach2', 'ok')
            return
        if kind == 'subclass':
            # a class defined later starts with an empty store and the default tag NONE, whatever its parent holds
            name = 'N_' + c
            real_name = name
            if name in w.cls:
                name = name + '#2'          # second live class with the very same __name__ / __qualname__ / module
            w.cls[name] = type(w.cls[c])(real_name, (w.cls[c],), w.ns)
            w.ref[name] = {'comps': [], 'tag': 0}
            for T in ('X', 'Y', 'F'):
                w.comp[(name, T)] = TYPES[T](w.cls[name], w.model)
                w.comp2[(name, T)] = TYPES[T](w.cls[name], w.m2)
            w.last = ('subclass', c)
            return
        cls, ref = w.cls[c], w.ref[c]
        if kind == 'attach_shared':
            T = op[2]
            if T in ref['comps']:
                self._rejected(w, lambda: cls.add_class_component(w.shared[T]), ValueError,
                               f'duplicate attach of {T} to {c}')
            else:
                cls.add_class_component(w.shared[T])
                ref['comps'].append(T)
                ref.setdefault('shared', set()).add(T)
            w.last = ('attach_shared',)
            return
        if kind == 'attach':
            T = op[2]
            if T in ref['comps']:
                self._rejected(w, lambda: cls.add_class_component(w.comp[(c, T)]), ValueError,
                               f'duplicate attach of {T} to {c}')
                w.last = ('attach', 'rejected')
            else:
                cls.add_class_component(w.comp[(c, T)])
                ref['comps'].append(T)
                w.last = ('attach', 'ok')
        elif kind == 'detach':
            T = op[2]
            if T in ref['comps']:
                cls.remove_class_component(TYPES[T])
                ref['comps'].remove(T)
                ref.get('shared', set()).discard(T)
                ref.get('m2', set()).discard(T)
                w.last = ('detach', 'ok')
            else:
                self._rejected(w, lambda: cls.remove_class_component(TYPES[T]), Core.ComponentNotFoundError,
                               f'detach of absent {T} from {c}')
                w.last = ('detach', 'rejected')
        elif kind == 'tag':
            # an instance created just before the default changes keeps the default it was created under - also when
            # nobody looked at its tag in the meantime
            if c != 'SpaceWorld':
                sleeper = cls(w.model) if issubclass(cls, Core.Environment) else cls(f'sleeper{len(w.sleepers)}', w.model)
                w.sleepers.append((sleeper, ref['tag'], c))
            cls.tag = op[2]
            ref['tag'] = op[2]
            w.last = ('tag', op[2])

    @staticmethod
    def _class_view(w):
        # what every class shows through its public interface (cheap: no full-field canon)
        return [(c, [(t.__name__, id(o)) for t, o in k.components.items()], k.tag) for c, k in w.cls.items()]

    def _rejected(self, w, call, exc, what):
        before = self.canon(w)
        try:
            call()
        except exc:
            if self.canon(w) != before:
                raise Violation(f'{what}: rejected but class state changed')
            return
        raise Violation(f'{what}: accepted', expected=exc.__name__, observed='no exception')

    def check(self, w):
        grid = Envs.SpaceWorld(w.model, 2, 2, 0)      # one spatial world per check: agents placed in it keep their tags
        made = w.cls['Fac']('child-1', w.model)
        if type(made) is not w.cls['FC'] or made.tag != w.ref['FC']['tag']:
            raise Violation(f'an instance of FC obtained through its parent\'s factory (Fac("child-1", model)) has tag '
                            f'{made.tag}; the default tag of ITS class is {w.ref["FC"]["tag"]}', expected=w.ref['FC']['tag'],
                            observed=made.tag)
        for inst, tag, c in w.sleepers:
            if not isinstance(inst, Core.Environment):
                # placing an agent in a spatial world has no bearing on its tag
                if grid.get_agent(inst.id) is None and Envs.PositionComponent not in inst:
                    grid.add_agent(inst, 0, 0)
            if inst.tag != tag:
                raise Violation(f'an instance of {c} created without a tag while the class default was {tag} shows tag '
                                f'{inst.tag} after the default was changed', expected=tag, observed=inst.tag)
        for c in list(w.cls):
            cls, ref = w.cls[c], w.ref[c]
            what = f'class {c} (reference {w.ref})'
            if len(cls) != len(ref['comps']):
                raise Violation(f'{what}: len(class) shows another class\'s components', expected=len(ref['comps']),
                                observed=len(cls))
            for T in ('X', 'Y', 'Z', 'F'):
                has = T in ref['comps']
                if (TYPES[T] in cls) != has or cls.has_class_component(TYPES[T]) != has:
                    raise Violation(f'{what}: {T} in class', expected=has, observed=TYPES[T] in cls)
                got = cls[TYPES[T]]
                want = (w.shared[T] if T in ref.get('shared', ()) else w.comp2[(c, T)] if T in ref.get('m2', ()) else
                        w.comp[(c, T)]) if has else None
                if got is not want:
                    raise Violation(f'{what}: class[{T}] answers the wrong component',
                                    expected=f'{c}.{T}' if has else None, observed=self._cname(w, got))
                if has:
                    if cls.get_class_component(TYPES[T], True) is not want:
                        raise Violation(f'{what}: strict get_class_component({T}) answers the wrong component')
                else:
                    try:
                        cls.get_class_component(TYPES[T], True)
                    except Core.ComponentNotFoundError:
                        pass
                    else:
                        raise Violation(f'{what}: strict get_class_component({T}) of an absent type did not raise')
            both = cls.has_class_component(X, Y)
            if both != ('X' in ref['comps'] and 'Y' in ref['comps']):
                raise Violation(f'{what}: has_class_component(X, Y)', observed=both)
            if cls.tag != ref['tag']:
                raise Violation(f'{what}: class default tag', expected=ref['tag'], observed=cls.tag)
            if list(cls.components) != [TYPES[T] for T in ref['comps']]:
                raise Violation(f'{what}: class.components keys', expected=ref['comps'],
                                observed=[t.__name__ for t in cls.components])
            # ---- instances ------------------------------------------------------------------------------
            is_env = issubclass(cls, Core.Environment)
            if c == 'SpaceWorld':
                inst = cls(w.model, 3, 2)
            else:
                inst = cls(w.model) if is_env else cls('i', w.model)
            if inst.tag != ref['tag']:
                raise Violation(f'{what}: an instance created without a tag got tag {inst.tag}, its class default is '
                                f'{ref["tag"]}', expected=ref['tag'], observed=inst.tag)
            if len(inst.components) != 0:
                raise Violation(f'{what}: a new instance starts with class components', observed=len(inst))
            if not is_env:
                for t in (7, 0, np.int64(7), np.uint8(0), np.int32(5)):
                    i2 = cls(f'j-{c}-{t!r}', w.model, tag=t)
                    if i2.tag != t:
                        raise Violation(f'{what}: explicit tag {t!r} lost', expected=int(t), observed=i2.tag)
                    if c != 'Fac':
                        grid.add_agent(i2, 1, 1)
                        if i2.tag != t:
                            raise Violation(f'{what}: explicit tag {t!r} lost when the agent was placed in a spatial world',
                                            expected=int(t), observed=i2.tag)
                i3 = cls('k', w.model, t)
                if i3.tag != t:
                    raise Violation(f'{what}: positional tag {t} lost', expected=t, observed=i3.tag)
            before = self._class_view(w)
            ic = Z(inst, w.model)
            inst.add_component(ic)
            inst.add_component(X(inst, w.model))
            if self._class_view(w) != before or (Z in cls) or cls[Z] is not None:
                raise Violation(f'{what}: an instance-level component became visible on the class')
            if inst[Z] is not ic or len(inst.components) != 2:
                raise Violation(f'{what}: instance components disturbed by the class store')
            if 'X' in ref['comps'] and (c, 'X') in w.comp and inst[X] is w.comp[(c, 'X')]:
                raise Violation(f'{what}: instance lookup answers the class component')

    def _cname(self, w, comp):
        for k, v in w.comp.items():
            if v is comp:
                return f'{k[0]}.{k[1]}'
        return repr(comp)

    def canon(self, w):
        # generic canon over the per-class stores: it tracks which classes hold the very same store object and
        # whether a store IS one of the library's module-level containers (a shared store looks identical to two
        # separate ones until the next attach)
        # the harness's own component objects come first, in a fixed order: operations refer to them by identity, so
        # they must keep stable names in the canonical form (two states that differ in WHICH object sits in a store
        # are different states)
        pool = [w.shared[T] for T in sorted(w.shared)] + [w.comp[k] for k in sorted(w.comp)] + \
               [w.comp2[k] for k in sorted(w.comp2)]
        return self.cn(pool, [(c, w.cls[c].components, w.cls[c].tag, w.cls[c].id) for c in w.cls])

    def refstate(self, w):
        return tuple((c, tuple(w.ref[c]['comps']), w.ref[c]['tag'], tuple(sorted(w.ref[c].get('m2', ())))) for c in w.cls) + \
            (w.model.is_running(),)

    def outcome(self, w):
        return (self.refstate(w), w.last)


def many_classes_case(case):
    """Hundreds of agent classes (a chain and a fan) and hundreds of component types: each class holds exactly what was
    attached to it and its own default tag."""
    from mc.engine.seams import reset_library
    reset_library()
    n = case['n']
    m = new_model(seed=1)
    types = [type(f'T{i}', (Core.Component,), {}) for i in range(n)]
    base = type('Base', (Core.Agent,), {})
    chain = [base]
    for i in range(n):
        chain.append(type(f'Chain{i}', (chain[-1],), {}))
    fan = [type(f'Fan{i}', (base,), {}) for i in range(n)]
    held = {}
    for i, cls in enumerate(chain + fan):
        mine = [types[(i * 7 + k) % n] for k in range(i % 4)]
        for T in mine:
            cls.add_class_component(T(cls, m))
        if i % 5 == 0:
            cls.tag = i
        held[cls] = (mine, i if i % 5 == 0 else 0)
    big = type('Big', (base,), {})
    for T in types:
        big.add_class_component(T(big, m))
    held[big] = (list(types), 0)
    q = 0
    for cls, (mine, tag) in held.items():
        q += 1
        if list(cls.components) != mine or len(cls) != len(mine) or cls.tag != tag:
            raise Violation(f'{cls.__name__} among {2 * n + 2} classes: class components / default tag',
                            expected=[[t.__name__ for t in mine], tag],
                            observed=[[t.__name__ for t in cls.components], cls.tag])
        for T in (types[0], types[n // 2], types[-1]):
            if (T in cls) != (T in mine) or cls.has_class_component(T) != (T in mine):
                raise Violation(f'{cls.__name__}: {T.__name__} in class', expected=T in mine, observed=T in cls)
        inst = cls('i', m)
        if inst.tag != tag or len(inst.components) != 0:
            raise Violation(f'{cls.__name__}: a new instance', expected=[tag, 0], observed=[inst.tag, len(inst.components)])
    for T in types[::17]:
        try:
            big.add_class_component(T(big, m))
        except ValueError:
            pass
        else:
            raise Violation(f'Big: duplicate attach of {T.__name__} accepted')
        big.remove_class_component(T)
        if T in big or len(big) != n - 1:
            raise Violation(f'Big: {T.__name__} still attached after removal')
        big.add_class_component(T(big, m))
    return q


WORLD_ARGS = {'Environment': (), 'SpaceWorld': (3, 2), 'DiscreteWorld': (2, 2, 2), 'GridWorld': (3, 2), 'LineWorld': (4,)}


def world_tags_case(case):
    """The bundled world classes are agent classes too: a default tag given to one of them (or to a user subclass, or to a
    subclass of that) shows on instances of exactly that class - every world kind, every level, set and reset."""
    from mc.engine.seams import reset_library
    reset_library()
    m = new_model(seed=1)
    wname, level, tag = case['world'], case['level'], case['tag']
    base = getattr(Envs, wname) if wname != 'Environment' else Core.Environment
    sub = type('Reserve', (base,), {})
    subsub = type('Park', (sub,), {})
    chain = [base, sub, subsub]
    others = [getattr(Envs, n) if n != 'Environment' else Core.Environment for n in WORLD_ARGS if n != wname]
    chain[level].tag = tag
    q = 0
    for rounds in range(2):
        for i, cls in enumerate(chain):
            want = tag if i == level else 0
            inst = cls(m, *WORLD_ARGS[wname])
            q += 1
            if cls.tag != want or inst.tag != want:
                raise Violation(f'default tag {tag} given to {chain[level].__name__} (level {level} above {wname}): class '
                                f'{cls.__name__} shows default {cls.tag}, a new instance has tag {inst.tag}', expected=want,
                                observed=[cls.tag, inst.tag])
        for o in others:
            n = o.__name__
            inst = o(m, *WORLD_ARGS[n])
            q += 1
            if o.tag != 0 or inst.tag != 0:
                raise Violation(f'default tag {tag} given to {chain[level].__name__}: the unrelated class {n} shows default '
                                f'{o.tag}, a new instance has tag {inst.tag}', expected=0, observed=[o.tag, inst.tag])
        a = Core.Agent('plain', m)
        if a.tag != 0 or Core.Agent.tag != 0:
            raise Violation(f'default tag {tag} given to {chain[level].__name__}: plain agents show tag {a.tag}')
        if rounds == 0:
            chain[level].tag = 0        # and back: everything shows 0 again in the second round
            tag = 0
    return q


def lifetime_case(case):
    """Defaults are read when an instance is initialised: a model's own environment was created with the model (not when
    somebody first looks at it), and a class that sets its own default tag in its constructor - before handing over to
    Agent.__init__ - tags the very instance being built."""
    from mc.engine.seams import reset_library
    reset_library()
    how = case['how']
    if how == 'model_environment':
        m = new_model(seed=1)                    # its environment exists from now on
        Core.Environment.tag = 3
        m2 = new_model(seed=2)
        try:
            if m.environment.tag != 0 or m2.environment.tag != 3:
                raise Violation('the environment of a model built while the Environment default tag was 0 / 3 shows tag '
                                f'{m.environment.tag} / {m2.environment.tag} after the default was changed to 3 in between',
                                expected=[0, 3], observed=[m.environment.tag, m2.environment.tag])
        finally:
            Core.Environment.tag = 0
        return 2
    m = new_model(seed=1)
    if how in ('seen_in_ctor', 'numbered', 'numbered_world'):
        # the default is received when Agent.__init__ runs: a subclass constructor that goes on after handing over to it sees
        # the tag; a class that moves its default on after each creation (numbering its instances) tags them 0, 1, 2 ...
        base = Core.Environment if how == 'numbered_world' else Core.Agent
        seen = []

        class Numbered(base):
            def __init__(self, *a, **kw):
                super().__init__(*a, **kw)
                seen.append(self.tag)
                if how != 'seen_in_ctor':
                    type(self).tag = self.tag + 1

        class Sub(Numbered):
            pass
        Numbered.tag = 4 if how == 'seen_in_ctor' else 0
        made = []
        for i, cls in enumerate((Numbered, Numbered, Sub, Numbered, Sub)):
            made.append(cls(m, f'n{i}') if base is Core.Environment else cls(f'n{i}', m))
        if base is Core.Agent:
            made.append(Numbered('ex', m, tag=9))          # an explicit tag wins (worlds take none)
        if how == 'seen_in_ctor':
            want = [4, 4, 0, 4, 0, 9]
        else:
            want = [0, 1, 0, 2, 1, 9]      # Sub has a default of its own (0), moved on by its own instances only
        want = want[:len(made)]
        got = [a.tag for a in made]
        if got != want or seen != want or base.tag != 0:
            raise Violation(f'tags of instances whose constructor goes on after {base.__name__}.__init__ ({how}): as seen inside '
                            f'the constructor / afterwards', expected=[want, want], observed=[seen, got])
        return 6

    class Lazy(Core.Agent):
        registered = False

        def __init__(self, id, model):
            if not Lazy.registered:              # the class registers its tag when its first instance is built
                Lazy.registered = True
                type(self).tag = 5
            super().__init__(id, model)

    class Child(Lazy):
        pass
    first = (Child if how == 'child_first' else Lazy)('first', m)
    second = Lazy('second', m)
    third = Child('third', m)
    want = {'first': 5 if how != 'child_first' else 5, 'second': 5, 'third': 0 if how != 'child_first' else 5}
    # (child_first: type(self) is Child, so it is Child's default that becomes 5; Lazy's stays 0)
    if how == 'child_first':
        want = {'first': 5, 'second': 0, 'third': 5}
    got = {'first': first.tag, 'second': second.tag, 'third': third.tag}
    if got != want or Core.Agent.tag != 0:
        raise Violation(f'a class that sets its own default tag inside __init__ before Agent.__init__ runs ({how}): tags of '
                        f'the first instance, a later instance of the parent and one of the child', expected=want, observed=got)
    return 3


# the cheap legs run once more under the runner's ambient configurations (python -O, other logger levels)
AMBIENT_LEGS = True


def run(ctx):
    case = {'leg': 'many_classes', 'n': 40 if ctx.small else 400}
    ctx.traces += 1
    try:
        ctx.transitions += hbfs._guard(many_classes_case, case)
        ctx.outcome(('many_classes', case['n']))
    except Violation as v:
        ctx.report(case, v)
        return
    ctx.leg('many_classes', note='a chain and a fan of 400 classes each, 400 component types, one class holding all of them')
    nw = 0
    for wname in WORLD_ARGS:
        for level in (0, 1, 2):
            for tag in (3, np.int64(5)):
                case = {'leg': 'world_tags', 'world': wname, 'level': level, 'tag': int(tag)}
                ctx.traces += 1
                nw += 1
                try:
                    ctx.transitions += hbfs._guard(world_tags_case, case)
                except Violation as v:
                    ctx.report(case, v)
                    return
    for how in ('model_environment', 'parent_first', 'child_first', 'seen_in_ctor', 'numbered', 'numbered_world'):
        case = {'leg': 'lifetime', 'how': how}
        ctx.traces += 1
        try:
            ctx.transitions += hbfs._guard(lifetime_case, case)
        except Violation as v:
            ctx.report(case, v)
            return
    ctx.leg('world_tags', cases=nw, note='default tags on the bundled world classes and two levels of user subclasses')
    depth = 2 if ctx.small else 3 if ctx.tier == 'quick' else 4
    h = Harness()
    r = hbfs.explore(ctx, h, 'hierarchy', max_depth=depth, procs=ctx.procs)
    ctx.leg('hierarchy', **r)
    ctx.caps.append(f'hierarchy: depth bound {depth} (all histories up to that depth covered)')
    if ctx.violations or ctx.small:
        return
    # a reduced alphabet (three classes, one component type) closes: every reachable state, at any depth
    h2 = Harness(['A', 'A1', 'B'], ('X',), subclassing=False)
    r = hbfs.explore(ctx, h2, 'core_fixpoint', max_depth=40, procs=ctx.procs)
    ctx.leg('core_fixpoint', **r)
    if not r.get('fixpoint'):
        ctx.cap('core_fixpoint: fixpoint not reached')
    if ctx.violations:
        return
    # falsy components, components owned by a second model (before / after the first model finished), a cloned class
    h3 = Harness(['A', 'A1'], ('X', 'F'), subclassing=False, extras=True)
    d3 = 4 if ctx.tier == 'quick' else 5
    r = hbfs.explore(ctx, h3, 'second_model_and_falsy', max_depth=d3, procs=ctx.procs)
    ctx.leg('second_model_and_falsy', **r)
    if not r.get('fixpoint'):
        ctx.caps.append(f'second_model_and_falsy: depth bound {d3} (all histories up to that depth covered)')


def replay(case):
    if case['leg'] == 'many_classes':
        hbfs._guard(many_classes_case, case)
        return
    if case['leg'] == 'world_tags':
        hbfs._guard(world_tags_case, case)
        return
    if case['leg'] == 'lifetime':
        hbfs._guard(lifetime_case, case)
        return
    c = case['config']
    hbfs.replay_case(Harness(c.get('op_classes'), c.get('op_types', ('X', 'Y')), c.get('subclassing', True),
                             c.get('extras', False)), case)
