"""C11 - cell components hold each cell's own value and are independent of their sources.

E1 history BFS over add/remove/mutate-the-caller's-buffer on named cell components, per grid shape, for every
source kind.  Known finding F4: a LookupGenerator whose table has the world's rank (< 3) fails through a world,
because worlds always hand the generator a 3-tuple.
"""
import numpy as np

from mc.engine import hbfs, par
from mc.engine.report import Violation
from mc.engine.seams import Canon, new_model

import ECAgent.Core as Core
import ECAgent.Environments as Envs

SHAPES = {
    'line4': ('line', [4]),
    'grid3x2': ('grid', [3, 2]),
    'gen3x2x2': ('discrete', [3, 2, 2]),
    'gen3x0x2': ('discrete', [3, 0, 2]),
    'gen0x2x0': ('discrete', [0, 2, 0]),
    'gen2x3x0': ('discrete', [2, 3, 0]),
    'line1': ('line', [1]),
    'grid1x3': ('grid', [1, 3]),
    'gen2x2x2': ('discrete', [2, 2, 2]),
    'grid2x2': ('grid', [2, 2]),
}
QUICK_SHAPES = ['line4', 'grid3x2', 'gen3x2x2', 'gen3x0x2', 'gen0x2x0', 'gen2x2x2']
KINDS = ['callable', 'list', 'ndarray', 'constant', 'lookup_rank', 'lookup_np_rank', 'lookup_3d', 'constant_tuple',
         'constant_list', 'callable_mixed', 'lookup_3d_reused', 'constant_subclass', 'callable_shift',
         'lookup_3d_tuples', 'lookup_3d_mixed', 'lookup_3d_reassigned', 'callable_mapping', 'lookup_3d_caller_edit',
         'constant_callable', 'lookup_np_oversize', 'lookup_np_fortran', 'lookup_3d_mixed_values']


class Either:
    """Two admissible contents of a component (decided by what the component shows, all cells alike)."""

    def __init__(self, *alts):
        self.alts = alts


class Marker:
    """A marker class used as a constant cell value (callable, like every class)."""


class PosConstant(Envs.ConstantGenerator):
    """A user generator derived from the bundled constant generator whose value depends on the position after all."""

    def __call__(self, pos, cells):
        return self.value + 100 * pos[0] + 10 * pos[1] + pos[2]
NAMES = ['p', 'q', 'r']

META = {
    'rule': 'BFS over histories of add(name, source kind)/remove(name)/remove(unknown)/mutate caller buffer per shape; '
            'distinct_nontrivial counts distinct (columns, last outcome) observations',
    'alphabet': {'shapes': SHAPES, 'source kinds': KINDS, 'bystander': 'a second world of the same shape with its own component, alive throughout', 'names': NAMES,
                 'values': 'v = 1000*kind + 100x + 10y + z (+7 for the constant generator): every cell and every '
                           'source kind distinguishable',
                 'ops': 'add(name, kind) for absent names, remove(name), remove(zz), mutate(name) = write into the '
                        'list / array the caller passed'},
    'bounds': {'quick': '6 shapes, names p,q, depth 4', 'thorough': '10 shapes: names p,q,r to depth 3 and names p,q to depth 4'},
    'assumptions': ['re-adding a name that already exists is not part of the claim and is not offered',
                    'lookup tables hold ints (so that a rank mismatch cannot index into a value)'],
}


def f(kind_i, pos):
    return 1000 * kind_i + 100 * pos[0] + 10 * pos[1] + pos[2]


def mk(model, kind, dims):
    if kind == 'discrete':
        return Envs.DiscreteWorld(model, *dims)
    if kind == 'line':
        return Envs.LineWorld(model, dims[0])
    return Envs.GridWorld(model, *dims)


class World:
    pass


class Harness:
    def __init__(self, shape, names, kinds=None):
        self.shape = shape
        self.names = list(names)
        self.kinds = list(kinds or KINDS)
        self.wkind, self.dims = SHAPES[shape]
        self.config = {'shape': shape, 'names': self.names, 'kinds': self.kinds}
        self.cn = Canon()
        d3 = list(self.dims) + [0] * (3 - len(self.dims))
        self.ext = [max(e, 1) for e in d3]
        self.rank = {'line': 1, 'grid': 2, 'discrete': 3}[self.wkind]
        self.table = [(x, y, z) for z in range(self.ext[2]) for y in range(self.ext[1]) for x in range(self.ext[0])]

    def fresh(self):
        w = World()
        w.model = new_model(seed=1)
        w.world = mk(w.model, self.wkind, self.dims)
        # a bystander world of the same shape, alive at the same time, with a component of its own
        w.other = mk(new_model(seed=2), self.wkind, self.dims)
        w.other.add_cell_component('keep', Envs.ConstantGenerator(42))
        w.other_snap = self.cn(w.other.cells)
        self._shared_gen = None
        self._shared_gen2 = None
        w.cols = {}          # name -> (kind, expected values by id)   (insertion order = column order)
        w.bufs = {}          # name -> the caller's buffer (list / ndarray) for list/ndarray sources
        w.known_now = None
        w.last = None
        return w

    def ops(self, w):
        ops = []
        for n in self.names:
            if n in w.cols:
                ops.append(['remove', n])
                if n in w.bufs:
                    ops.append(['mutate', n])
            else:
                ops += [['add', n, k] for k in self.kinds]
        ops.append(['remove', 'zz'])
        # unknown names that happen to be attributes of the table object (pandas.DataFrame.size, .T, .index)
        ops += [['remove', nm] for nm in ('size', 'T', 'index')]
        return ops

    def known(self, w):
        return w.known_now

    def _source(self, kind):
        ki = KINDS.index(kind)
        vals = [f(ki, p) for p in self.table]
        if kind == 'callable':
            return (lambda pos, cells: f(ki, pos)), vals, None
        if kind == 'constant_subclass':
            return PosConstant(1000 * ki), [f(ki, p) for p in self.table], None
        if kind == 'callable_shift':
            # arithmetic that leaves 64 bits even for small coordinates (exact in Python integers)
            fn = lambda pos, cells: (1 << (40 + 9 * pos[0] + 5 * pos[1] + 3 * pos[2])) + ki       # noqa
            return fn, [fn(p, None) for p in self.table], None
        if kind == 'callable_mixed':
            # the first cell yields an int, later cells floats / a bool / a string: each cell keeps its own value
            def mixed(pos, cells):
                i = self.table.index(tuple(pos))
                return [f(ki, pos), f(ki, pos) + 0.5, True, 'txt'][i % 4] if i else f(ki, pos)
            return mixed, [mixed(p, None) for p in self.table], None
        if kind == 'list':
            buf = list(vals)
            return buf, vals, buf
        if kind == 'ndarray':
            buf = np.array(vals)
            return buf, vals, buf
        if kind == 'constant':
            return Envs.ConstantGenerator(7 + 1000 * ki), [7 + 1000 * ki] * len(self.table), None
        if kind == 'constant_callable':
            # a constant that happens to be callable (a marker class): every cell holds the constant itself
            return Envs.ConstantGenerator(Marker), [Marker] * len(self.table), None
        if kind in ('constant_tuple', 'constant_list'):
            # a constant that is itself a sequence with exactly one entry per cell: every cell holds the WHOLE value
            seq = [1000 * ki + i for i in range(len(self.table))]
            val = tuple(seq) if kind == 'constant_tuple' else seq
            return Envs.ConstantGenerator(val), [val] * len(self.table), None
        ex = self.ext
        full = [[[f(ki, (x, y, z)) for z in range(ex[2])] for y in range(ex[1])] for x in range(ex[0])]
        if kind == 'lookup_3d':
            return Envs.LookupGenerator(full), vals, None
        if kind == 'lookup_np_fortran':
            # the same table in column-major memory order / as a transposed view of its transpose
            arr = np.asfortranarray(np.array(full)) if ki % 2 else np.ascontiguousarray(np.array(full).T).T
            return Envs.LookupGenerator(arr), vals, None
        if kind == 'lookup_3d_mixed_values':
            # a nested-list table whose ENTRIES are of mixed kinds (numbers, strings, a bool): each cell keeps its own
            def mv(p):
                i = p[0] + 2 * p[1] + 3 * p[2]
                return [f(ki, p), f'c{i}', True, f(ki, p) + 0.5][i % 4]
            tbl = [[[mv((x, y, z)) for z in range(ex[2])] for y in range(ex[1])] for x in range(ex[0])]
            return Envs.LookupGenerator(tbl), [mv(p) for p in self.table], None
        if kind == 'lookup_np_oversize':
            # one raster shared by several worlds: a numpy table LARGER than this world along x and y (and z): each cell
            # takes the entry at its own coordinates
            big = np.array([[[f(ki, (x, y, z)) for z in range(ex[2] + 1)] for y in range(ex[1] + 1)] for x in range(ex[0] + 2)])
            return Envs.LookupGenerator(big), vals, None
        if kind == 'lookup_3d_tuples':      # the same table as nested tuples (read-only data, a zip(*rows) transpose, ...)
            return Envs.LookupGenerator(tuple(tuple(tuple(zs) for zs in ys) for ys in full)), vals, None
        if kind == 'lookup_3d_mixed':       # a list of tuples of lists
            return Envs.LookupGenerator([tuple(list(zs) for zs in ys) for ys in full]), vals, None
        if kind == 'callable_mapping':
            # a functor that is also a mapping (a memo table with a __call__): it is a generator like any other callable
            class Memo(dict):
                def __call__(self_, pos, cells):
                    return f(ki, pos)
            return Memo({(0, 0, 0): 'raw entry', 'size': -1}), vals, None
        if kind == 'lookup_3d_caller_edit':
            # the caller builds the generator from a nested list and goes on editing that list before the generator is
            # used: one entry of the first slab is changed in place, the last slab is replaced by a new one.  The
            # component shows the table as it is now or (a generator that took a copy) as it was then - for EVERY cell
            # alike (decided in apply)
            tbl = [[[f(ki, (x, y, z)) for z in range(ex[2])] for y in range(ex[1])] for x in range(ex[0])]
            gen = Envs.LookupGenerator(tbl)
            then = list(vals)
            tbl[0][0][0] += 31
            tbl[-1] = [[v + 77000 for v in zs] for zs in tbl[-1]]
            now = [tbl[p[0]][p[1]][p[2]] for p in self.table]
            return gen, Either(now, then), None
        if kind == 'lookup_3d_reassigned':
            # ONE generator object per world whose public `table` attribute is REPLACED by a new array before every
            # further use
            gen = getattr(self, '_shared_gen2', None)
            if gen is None:
                gen = self._shared_gen2 = Envs.LookupGenerator(np.array(full))
                self._shared_uses2 = 0
            else:
                self._shared_uses2 += 1
                gen.table = np.array(full) + 100000 * self._shared_uses2
            return gen, [v + 100000 * self._shared_uses2 for v in vals], None
        if kind == 'lookup_3d_reused':
            # ONE generator object per world whose table is edited in place before every further use
            gen = self._shared_gen
            if gen is None:
                gen = self._shared_gen = Envs.LookupGenerator(full)
                self._shared_uses = 0
            else:
                self._shared_uses += 1
                for x in range(ex[0]):
                    for y in range(ex[1]):
                        for z in range(ex[2]):
                            gen.table[x][y][z] += 100000
            bump = 100000 * self._shared_uses
            return gen, [v + bump for v in vals], None
        if self.rank == 1:
            t = [full[x][0][0] for x in range(ex[0])]
        elif self.rank == 2:
            t = [[full[x][y][0] for y in range(ex[1])] for x in range(ex[0])]
        else:
            t = full
        if kind == 'lookup_np_rank':
            t = np.array(t)
        return Envs.LookupGenerator(t), vals, None

    def apply(self, w, op):
        w.known_now = None
        world = w.world
        if op[0] == 'add':
            name, kind = op[1], op[2]
            src, vals, buf = self._source(kind)
            before = self.cn(world.cells)
            try:
                (world.addCellComponent if kind == 'callable' and name == 'q' else world.add_cell_component)(name, src)
            except (TypeError, IndexError) as e:
                if kind in ('lookup_rank', 'lookup_np_rank') and self.rank < 3 and self.cn(world.cells) == before:
                    # as-is behaviour K: the generator is handed a 3-tuple, indexes one level too deep, raises, and
                    # nothing is added.  Matches finding F4 exactly (exception kind + unchanged table).
                    w.known_now = Violation(
                        f'add_cell_component({name!r}, LookupGenerator(rank-{self.rank} table)) on {self.shape} raised '
                        f'{type(e).__name__}', expected='column holding the table entry at each cell\'s coordinates',
                        observed=f'{type(e).__name__}: {e}', known='F4')
                    w.last = ('add', kind, 'F4')
                    return
                raise
            if isinstance(vals, Either):
                got = [_py(v) for v in world.cells[name]]
                match = [a for a in vals.alts if a == got]
                if not match:
                    raise Violation(f'component {name!r} (source {kind}) holds neither the caller\'s table as it is now nor '
                                    f'as it was when the generator was built', expected=list(vals.alts), observed=got)
                vals = match[0]
            w.cols[name] = (kind, vals)
            if buf is not None:
                w.bufs[name] = buf
            w.last = ('add', kind, 'ok')
        elif op[0] == 'remove':
            name = op[1]
            if name in w.cols:
                world.remove_cell_component(name)
                del w.cols[name]
                w.bufs.pop(name, None)
                w.last = ('remove', 'ok')
            else:
                before = self.cn(world.cells)
                try:
                    world.remove_cell_component(name)
                except Core.ComponentNotFoundError:
                    if self.cn(world.cells) != before:
                        raise Violation(f'rejected removal of unknown component {name!r} changed the cells table')
                    w.last = ('remove', 'rejected')
                    return
                raise Violation(f'removal of unknown cell component {name!r} accepted',
                                expected='ComponentNotFoundError', observed='no exception')
        elif op[0] == 'mutate':
            buf = w.bufs[op[1]]
            for i in range(len(buf)):
                buf[i] = buf[i] + 50000 + i
            w.last = ('mutate',)
        else:
            raise ValueError(op)

    def check(self, w):
        if self.cn(w.other.cells) != w.other_snap:
            raise Violation('an operation on one world changed the cell components of another world of the same shape',
                            expected=['pos', 'keep'], observed=list(w.other.cells.columns))
        cells = w.world.cells
        cols = list(cells.columns)
        if cols != ['pos'] + list(w.cols):
            raise Violation('set / order of cell components differs', expected=['pos'] + list(w.cols), observed=cols)
        if len(cells) != len(self.table):
            raise Violation('number of cells changed', expected=len(self.table), observed=len(cells))
        if [tuple(p) for p in cells['pos']] != self.table:
            raise Violation('position column changed', expected=self.table[:4], observed=list(cells['pos'])[:4])
        narg = self.rank
        for name, (kind, vals) in w.cols.items():
            got = [_py(v) for v in cells[name]]
            if got != vals:
                raise Violation(f'component {name!r} (source {kind}) does not hold each cell\'s own value',
                                expected=vals, observed=got)
            for i, pos in enumerate(self.table):
                if _py(cells[name][i]) != vals[i]:
                    raise Violation(f'cells[{name!r}][{i}] differs', expected=vals[i], observed=_py(cells[name][i]))
            # through get_cell as well (first, middle, last cell)
            for i in sorted({0, len(self.table) // 2, len(self.table) - 1}):
                pos = self.table[i]
                row = w.world.get_cell(*pos[:narg])
                if _py(row[name]) != vals[i] or tuple(row['pos']) != pos:
                    raise Violation(f'get_cell{pos[:narg]}[{name!r}] differs', expected=vals[i],
                                    observed=_py(row[name]))

    def canon(self, w):
        return (self.cn(w.world), tuple(sorted(w.bufs)))

    def refstate(self, w):
        return tuple((n, k) for n, (k, _) in w.cols.items())

    def outcome(self, w):
        return (tuple((n, k) for n, (k, _) in w.cols.items()), w.last)


class ReplaceHarness(Harness):
    """Components are set and SET AGAIN under the same name (the later source replaces the earlier one), from lists,
    from a generator of the coordinates, and from a generator that reads the other component through the `cells`
    argument it is handed: it sees the other component as it is at that moment."""

    SET_KINDS = ['list_a', 'list_b', 'callable', 'reads', 'consumes']

    def __init__(self, shape):
        super().__init__(shape, ['p', 'q'], ['callable'])
        self.config = {'shape': shape, 'replace': True}

    def ops(self, w):
        ops = []
        for n in self.names:
            other = 'q' if n == 'p' else 'p'
            for k in self.SET_KINDS:
                if k in ('reads', 'consumes') and other in w.cols and w.cols[other][0] in ('reads', 'consumes'):
                    continue          # keeps the values (and so the state space) finite
                if k == 'consumes' and other not in w.cols:
                    continue
                ops.append(['set', n, k])
        ops += [['remove', n] for n in self.names if n in w.cols]
        return ops

    def apply(self, w, op):
        w.known_now = None
        if op[0] != 'set':
            return super().apply(w, op)
        name, kind = op[1], op[2]
        other = 'q' if name == 'p' else 'p'
        n = len(self.table)
        if kind == 'list_a':
            src, vals = [10 + i for i in range(n)], [10 + i for i in range(n)]
        elif kind == 'list_b':
            src, vals = [500 - i for i in range(n)], [500 - i for i in range(n)]
        elif kind == 'callable':
            src = lambda pos, cells: 7000 + pos[0] + 10 * pos[1] + 100 * pos[2]      # noqa
            vals = [src(p, None) for p in self.table]
        else:
            table = self.table
            world = w.world

            def src(pos, cells):
                i = table.index(tuple(int(v) for v in pos))
                out = ('saw', _py(cells[other][i]) if other in cells.columns else None)
                if kind == 'consumes' and i == len(table) - 1:
                    world.remove_cell_component(other)      # a helper component, dropped once its last cell was read
                return out
            base = w.cols[other][1] if other in w.cols else [None] * n
            vals = [('saw', b) for b in base]
        w.world.add_cell_component(name, src)
        if kind == 'consumes':
            del w.cols[other]
        w.cols[name] = (kind, vals)
        w.last = ('set', kind, name in w.cols)

    def refstate(self, w):
        return tuple((n, k, repr(v)) for n, (k, v) in w.cols.items())


def _py(v):
    if isinstance(v, np.generic):
        return v.item()
    if isinstance(v, np.ndarray):
        return v.tolist()
    return v


TYPED = {
    'datetime64[ns]': lambda n: np.array([np.datetime64('2021-03-04T05:06:07.000000008') + np.timedelta64(i * 10 ** 9 + i, 'ns')
                                          for i in range(n)], dtype='datetime64[ns]'),
    'datetime64[D]': lambda n: np.array([np.datetime64('2021-03-04') + np.timedelta64(i, 'D') for i in range(n)]),
    'timedelta64[ms]': lambda n: np.array([np.timedelta64(1500 * i + 7, 'ms') for i in range(n)]),
    'complex128': lambda n: np.array([complex(i, -i - 0.5) for i in range(n)]),
    'float32': lambda n: np.array([i + 0.25 for i in range(n)], dtype='float32'),
    'uint8': lambda n: np.array([(200 + i) % 256 for i in range(n)], dtype='uint8'),
    'int64_extreme': lambda n: np.array([(-2 ** 63 + i) if i % 2 else (2 ** 63 - 1 - i) for i in range(n)], dtype='int64'),
    'uint64': lambda n: np.array([2 ** 64 - 1 - i for i in range(n)], dtype='uint64'),
    'bool': lambda n: np.array([i % 3 == 0 for i in range(n)]),
    'str': lambda n: np.array([f'c{i}' for i in range(n)]),
    'bytes': lambda n: np.array([b'b%d' % i for i in range(n)]),
    'object': lambda n: np.array([(i, 'x') if i % 2 else {'i': i} for i in range(n)] + [None], dtype=object)[:n],
}


def _kind_of(v):
    import datetime
    if isinstance(v, (datetime.datetime, np.datetime64)):
        return 'M'
    if isinstance(v, (datetime.timedelta, np.timedelta64)):
        return 'm'
    if isinstance(v, (bool, np.bool_)):
        return 'b'
    if isinstance(v, (int, np.integer)):
        return 'i'
    if isinstance(v, (float, np.floating)):
        return 'f'
    if isinstance(v, (complex, np.complexfloating)):
        return 'c'
    if isinstance(v, str):
        return 'U'
    if isinstance(v, bytes):
        return 'S'
    return 'O'


def typed_array_case(case):
    """An array of every element type numpy offers as the source: each cell holds ITS element - same value, same kind of
    thing (a timestamp stays a timestamp, an unsigned 64-bit number keeps its value)."""
    from mc.engine.seams import reset_library
    reset_library()
    world = mk(new_model(seed=1), case['kind'], case['dims'])
    n = len(world.cells)
    arr = TYPED[case['dtype']](n)
    src = arr.copy()
    if case.get('frozen'):
        arr.flags.writeable = False      # the caller hands over a write-protected array (and thaws it afterwards)
    if case.get('via') == 'lookup':
        # the same values as a numpy table of the bundled lookup generator (entry [x][y][z] belongs to cell (x, y, z))
        if src.dtype.kind == 'O':
            return 0
        ext = [max(int(e), 1) for e in (list(case['dims']) + [0, 0])[:3]]
        table3 = np.empty((ext[0], ext[1], ext[2]), dtype=src.dtype)
        for i, pos in enumerate(world.cells['pos']):
            table3[pos[0]][pos[1]][pos[2]] = src[i]
        world.add_cell_component('t', Envs.LookupGenerator(table3))
    else:
        world.add_cell_component('t', arr)
    got = list(world.cells['t'])
    if len(got) != n:
        raise Violation('column length differs from the number of cells', expected=n, observed=len(got))
    for i in range(n):
        want = src[i]
        wk = {'u': 'i'}.get(src.dtype.kind, src.dtype.kind) if src.dtype.kind != 'O' else _kind_of(want)
        same = (got[i] is want) if src.dtype.kind == 'O' else bool(got[i] == want)
        if not same or (src.dtype.kind != 'O' and _kind_of(got[i]) != wk):
            raise Violation(f'cell {i} of a {case["dims"]} world filled from a {case["dtype"]} array holds {got[i]!r}',
                            expected=repr(want), observed=repr(got[i]))
    if not np.array_equal(arr, src) and src.dtype.kind != 'O':
        raise Violation('the caller\'s array was modified')
    if case.get('frozen'):
        arr.flags.writeable = True
    arr[0] = arr[-1]          # the caller's array stays the caller's
    if n > 1 and src.dtype.kind != 'O' and bool(list(world.cells['t'])[0] == src[-1]) and src[0] != src[-1]:
        raise Violation(f'the column aliases the caller\'s {case["dtype"]} array')
    return n


def redeclare_missing_case(case):
    """A component is declared, then declared again from a source that assigns "no value" (NaN / None) to some cells:
    those cells hold what the NEW source assigns, like every other cell."""
    import math
    from mc.engine.seams import reset_library
    reset_library()
    world = mk(new_model(seed=1), case['kind'], case['dims'])
    n = len(world.cells)
    first = [1.5 + i for i in range(n)]
    hole = float('nan') if case['missing'] == 'nan' else None
    second = [hole if i in (0, n // 2) else 100.0 + i for i in range(n)]
    world.add_cell_component('h', {'list': list(first), 'array': np.array(first), 'callable': None}[case['first']]
                             if case['first'] != 'callable' else (lambda pos, cells: first[_cell_index(world, pos)]))
    how = case['second']
    if how == 'list':
        src = list(second)
    elif how == 'array':
        src = np.array(second, dtype=float if hole is not None else object)
    else:
        src = lambda pos, cells: second[_cell_index(world, pos)]      # noqa
    world.add_cell_component('h', src)
    got = list(world.cells['h'])
    for i in range(n):
        w_, g = second[i], got[i]
        ok = (g is None or (isinstance(g, float) and math.isnan(g))) if (w_ is None or w_ != w_) else g == w_
        if not ok:
            raise Violation(f'component declared from a {case["first"]}, then again from a {how} that assigns {case["missing"]} to '
                            f'cells 0 and {n // 2}: cell {i} of the {case["dims"]} world', expected=repr(w_), observed=repr(g))
    return n


def _cell_index(world, pos):
    w_, h_ = max(world.width, 1), max(world.height, 1)
    return int(pos[0] + pos[1] * w_ + pos[2] * w_ * h_)


def sequence_case(case):
    """Several worlds built one after the other in one process; on EACH a component is declared from a callable, a list, an
    array and a lookup table: every cell holds the value that source assigns to THAT world's cell."""
    from mc.engine.seams import reset_library
    reset_library()
    n = 0
    built = []
    for kind, dims in case['worlds']:
        world = mk(new_model(seed=1), kind, dims)
        built.append((world, kind, dims))
    for world, kind, dims in built + built[::-1]:
        d3 = list(dims) + [0] * (3 - len(dims))
        ext = [max(e, 1) for e in d3]
        table = [(x, y, z) for z in range(ext[2]) for y in range(ext[1]) for x in range(ext[0])]
        want = [100 * x + 10 * y + z for x, y, z in table]
        world.add_cell_component('by_pos', lambda pos, cells: 100 * pos[0] + 10 * pos[1] + pos[2])
        world.add_cell_component('by_list', list(want))
        world.add_cell_component('by_array', np.array(want))
        lut = [[[100 * x + 10 * y + z for z in range(ext[2])] for y in range(ext[1])] for x in range(ext[0])]
        world.add_cell_component('by_lookup', Envs.LookupGenerator(lut))
        for name in ('by_pos', 'by_list', 'by_array', 'by_lookup'):
            got = [_py(v) for v in world.cells[name]]
            n += 1
            if got != want:
                k = next(i for i, (a, b) in enumerate(zip(got, want)) if a != b)
                raise Violation(f'{kind} world {dims} (one of {len(built)} worlds built in this process), component {name}: cell '
                                f'{k} (at {table[k]})', expected=want[k], observed=got[k])
    return n


def sequence_cases():
    yield {'leg': 'sequence', 'worlds': [['grid', [11, 1]], ['grid', [1, 11]], ['grid', [12, 3]], ['grid', [1, 23]],
                                         ['line', [111]], ['grid', [11, 10]], ['discrete', [1, 1, 10]], ['discrete', [11, 1, 0]]]}
    yield {'leg': 'sequence', 'worlds': [['grid', [1, 11]], ['grid', [11, 1]], ['grid', [2, 13]], ['grid', [21, 3]],
                                         ['discrete', [2, 1, 3]], ['discrete', [21, 0, 3]], ['discrete', [2, 10, 3]]]}
    yield {'leg': 'sequence', 'worlds': [['line', [1100]], ['grid', [80, 2]], ['discrete', [3, 2, 2]], ['grid', [2, 1030]],
                                         ['grid', [40, 3]], ['discrete', [5, 4, 3]]]}


def redeclare_missing_cases():
    for kind, dims in (('line', [5]), ('grid', [3, 2]), ('discrete', [2, 2, 2])):
        for first in ('list', 'array', 'callable'):
            for second in ('list', 'array', 'callable'):
                for missing in ('nan', 'none'):
                    yield {'leg': 'redeclare_missing', 'kind': kind, 'dims': dims, 'first': first, 'second': second,
                           'missing': missing}


def many_components_case(case):
    """A wide cell table (more than a hundred components); then one of them is set again from a new source: it holds the
    new values, every other component and the number / order of columns stay as they were."""
    from mc.engine.seams import reset_library
    reset_library()
    world = mk(new_model(seed=1), case['kind'], case['dims'])
    n = len(world.cells)
    k = case['components']
    for j in range(k):
        world.add_cell_component(f'c{j:03d}', [1000 * j + i for i in range(n)])
    cols = ['pos'] + [f'c{j:03d}' for j in range(k)]
    if list(world.cells.columns) != cols:
        raise Violation(f'{k} components: set / order of columns', expected=cols[:4], observed=list(world.cells.columns)[:4])
    for name, src, vals in (('c005', [-i for i in range(n)], [-i for i in range(n)]),
                            (f'c{k - 1:03d}', lambda pos, cells: 7 * pos[0] + pos[1], None),
                            ('c005', np.array([3 * i for i in range(n)]), [3 * i for i in range(n)])):
        world.add_cell_component(name, src)
        if vals is None:
            vals = [7 * p[0] + p[1] for p in world.cells['pos']]
        col = world.cells[name]
        if getattr(col, 'ndim', 1) != 1 or [_py(v) for v in col] != vals:
            raise Violation(f'component {name!r} set again in a table of {k} components does not hold its new source\'s '
                            f'values', expected=vals[:5], observed=repr(col)[:200])
        if list(world.cells.columns) != cols:
            raise Violation(f'setting {name!r} again changed the set / order of columns', expected=len(cols),
                            observed=len(world.cells.columns))
    for j in (0, 6, k // 2, k - 2):
        if [_py(v) for v in world.cells[f'c{j:03d}']] != [1000 * j + i for i in range(n)]:
            raise Violation(f'component c{j:03d} changed when another component was set again')
    return k + 3


def typed_array_cases():
    for kind, dims in (('line', [5]), ('grid', [3, 2]), ('discrete', [2, 2, 2]), ('discrete', [0, 3, 0])):
        for dt in TYPED:
            yield {'leg': 'typed_array', 'kind': kind, 'dims': dims, 'dtype': dt}
            if dt in ('float32', 'uint64', 'str', 'datetime64[ns]', 'bool'):
                yield {'leg': 'typed_array', 'kind': kind, 'dims': dims, 'dtype': dt, 'frozen': True}
            if kind == 'discrete':      # (the lookup generator is handed 3-tuples: finding F4 keeps it to 3-D worlds)
                yield {'leg': 'typed_array', 'kind': kind, 'dims': dims, 'dtype': dt, 'via': 'lookup'}


def big_world_case(case):
    """A world with several thousand cells and values far beyond 64 bits: every cell checked."""
    from mc.engine.seams import reset_library
    reset_library()
    wkind, dims = case['kind'], case['dims']
    world = mk(new_model(seed=1), wkind, dims)
    table = [tuple(int(v) for v in p) for p in world.cells['pos']]      # plain ints for the reference

    def key(pos, cells):
        # ten digits per axis, built from factors that each fit 64 bits: exact in Python integers, far beyond 2**63
        return (pos[0] * 10 ** 10 + pos[1]) * 10 ** 10 + pos[2]
    world.add_cell_component('k', key)
    world.add_cell_component('c', Envs.ConstantGenerator('s'))
    got = list(world.cells['k'])
    for i, p in enumerate(table):
        if got[i] != key(p, None):
            raise Violation(f'cell {p} of a {dims} world holds {got[i]!r}', expected=key(p, None), observed=repr(got[i]))
    if list(world.cells['c']) != ['s'] * len(table) or list(world.cells.columns) != ['pos', 'k', 'c']:
        raise Violation('second component of the big world differs')
    return len(table)


def explore_one(ctx, item):
    shape, names, depth = item
    h = Harness(shape, names)
    r = hbfs.explore(ctx, h, shape, max_depth=depth, procs=1)
    ctx.leg('shapes', **r)


# the cheap legs run once more under the runner's ambient configurations (python -O, other logger levels)
AMBIENT_LEGS = True


def run(ctx):
    if ctx.tier == 'quick':
        items = [(s, ['p', 'q'], 4) for s in QUICK_SHAPES]
        if ctx.small:
            items = [(s, ['p', 'q'], 3) for s in QUICK_SHAPES[:3]]
    else:
        # every shape: all three names to depth 3, two names to depth 4 (22 source kinds: 66^4 histories per shape would
        # take the thorough tier from minutes to hours)
        items = [(s, NAMES, 3) for s in SHAPES] + [(s, ['p', 'q'], 4) for s in SHAPES]
    par.pmap(ctx, explore_one, items, procs=ctx.procs)
    for case in ([{'leg': 'big', 'kind': 'grid', 'dims': [64, 64]}, {'leg': 'big', 'kind': 'line', 'dims': [5000]}] +
                 ([{'leg': 'big', 'kind': 'discrete', 'dims': [16, 16, 17]}] if ctx.tier == 'thorough' else [])):
        if ctx.violations:
            break
        ctx.traces += 1
        try:
            ctx.transitions += hbfs._guard(big_world_case, case)
        except Violation as v:
            ctx.report(case, v)
    if not ctx.violations:
        for shape in (('grid3x2',) if ctx.tier == 'quick' else ('grid3x2', 'line4', 'gen2x2x2')):
            h = ReplaceHarness(shape)
            r = hbfs.explore(ctx, h, f'replace:{shape}', max_depth=40, procs=ctx.procs)
            ctx.leg('replace', **r)
            if not r.get('fixpoint'):
                ctx.cap(f'replace:{shape}: fixpoint not reached')
    nt = 0
    for case in typed_array_cases():
        if ctx.violations:
            break
        ctx.traces += 1
        nt += 1
        try:
            ctx.transitions += hbfs._guard(typed_array_case, case)
            ctx.outcome(('typed', case['dtype'], tuple(case['dims'])))
        except Violation as v:
            ctx.report(case, v)
    ctx.leg('typed_arrays', cases=nt, dtypes=sorted(TYPED))
    nm = 0
    for case in redeclare_missing_cases():
        if ctx.violations:
            break
        ctx.traces += 1
        nm += 1
        try:
            ctx.transitions += hbfs._guard(redeclare_missing_case, case)
        except Violation as v:
            ctx.report(case, v)
    ctx.leg('redeclare_missing', cases=nm, note='a component declared again from a source that assigns NaN / None to some cells')
    if not ctx.small:
        for case in sequence_cases():
            if ctx.violations:
                break
            ctx.traces += 1
            try:
                ctx.transitions += hbfs._guard(sequence_case, case)
            except Violation as v:
                ctx.report(case, v)
        ctx.leg('sequence', cases=3, note='worlds with colliding extents built in one process, four kinds of source on each')
    if not ctx.violations and not ctx.small:
        for case in ({'leg': 'many_components', 'kind': 'grid', 'dims': [3, 2], 'components': 120},
                     {'leg': 'many_components', 'kind': 'line', 'dims': [4], 'components': 260}):
            ctx.traces += 1
            try:
                ctx.transitions += hbfs._guard(many_components_case, case)
                ctx.outcome(('many_components', case['components']))
            except Violation as v:
                ctx.report(case, v)
        ctx.leg('many_components', note='120 / 260 components, three of them set again')
    ctx.leg('big_worlds', note='64x64, line 5000 (thorough also 16x16x17): position-keyed values beyond 2**63, every cell')
    ctx.caps.append(f'depth bound {items[0][2]} per shape (all histories up to that depth covered)')


def replay(case):
    if case['leg'] == 'redeclare_missing':
        hbfs._guard(redeclare_missing_case, case)
        return
    if case['leg'] == 'typed_array':
        hbfs._guard(typed_array_case, case)
        return
    if case['leg'] == 'many_components':
        hbfs._guard(many_components_case, case)
        return
    if case['leg'] == 'sequence':
        hbfs._guard(sequence_case, case)
        return
    if case['leg'] == 'big':
        hbfs._guard(big_world_case, case)
        return
    c = case['config']
    if c.get('replace'):
        hbfs.replay_case(ReplaceHarness(c['shape']), case)
        return
    h = Harness(c['shape'], c['names'], c['kinds'])
    w = hbfs.replay_case(h, case)
    if w.known_now is not None:
        raise w.known_now
