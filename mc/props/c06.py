"""C06 - completion is immediate and final: nothing runs after complete().

E1 history BFS to the fixpoint per configuration (position of the completing system in the priority order x the
timestep at which it completes), with external completion, single/multi-step/error-raising advance requests and
registrations/removals as operations.
"""
from mc.engine import hbfs
from mc.engine.report import Violation
from mc.engine.seams import Canon, public_snapshot, new_model

import atexit
import copy
import logging
import os
import shutil
import tempfile

import ECAgent.Core as Core
import ECAgent.Decode as Decode
from ECAgent.Collectors import AgentCollector, FileCollector

POS = {'first': 2, 'mid': 0, 'last': -2, 'none': None}
TCS = [0, 1, 2]
RECS = [('r1', 1), ('r0', 0), ('rm', -1)]

META = {
    'rule': 'BFS over histories of execute(1)/execute(2)/execute(3)/execute_systems()/execute_systems(True)/'
            'complete()/add/remove, per (completer position, completing timestep); distinct_nontrivial counts '
            'distinct (status, clock, log of the last operation) observations',
    'alphabet': {'completer_position(priority)': POS, 'completing_timestep': TCS, 'logger': 'library default, or a caller-supplied logger with level ERROR',
                 'completer style': 'plain | complete()+clean_up() in one execute | complete() then raise (caught by the '
                                    'driver) | all systems with a finite end=2 | gated (model class with its own running condition, operation gate) | '
                                    'spawning (registers a system right before completing) | unimplemented (ends in the base '
                                    'class\'s NotImplementedError)', 'recorders(key,priority)': RECS,
                 'ops': 'execute(1), execute(2), execute(3), execute_systems(), execute_systems(throw_error=True), '
                        'complete() from outside, remove/add r0, remove/add rm, add new (priority 3), '
                        'complete() from inside by the completer when timestep == tc'},
    'bounds': {'quick': 'positions first/mid/last/none x tc 0..2, fixpoint (clock horizon 4 while running)',
               'thorough': 'same alphabet, clock horizon 6, plus a second completer; fixpoint'},
    'assumptions': ['whether the completing timestep itself advances the clock is not asserted (property silent); '
                    'the clock value after the completing step is taken as the frozen value'],
}


class World:
    pass


class Halt(Exception):
    pass


_SCRATCH = {}


def _scratch_dir():
    """One scratch directory per harness process (removed at exit) for the file collector's output."""
    pid = os.getpid()
    if pid not in _SCRATCH:
        # worker processes leave without running exit handlers: their directories live inside the one the run made (and
        # removes when it ends)
        parent = os.environ.get('C06_SCRATCH_PARENT')
        d = tempfile.mkdtemp(prefix='c06-', dir=parent if parent and os.path.isdir(parent) else None)
        _SCRATCH.clear()
        _SCRATCH[pid] = d
        atexit.register(shutil.rmtree, d, ignore_errors=True)
    return _SCRATCH[pid]


def _read(path):
    try:
        with open(path) as f:
            return f.read()
    except FileNotFoundError:
        return ''


class Harness:
    def __init__(self, pos, tc, horizon=4, second=False, quiet=False, style='plain'):
        self.pos, self.tc, self.horizon, self.second, self.quiet = pos, tc, horizon, second, quiet
        # style of the completing system: 'plain'; 'self_removing' (complete() then clean_up() in the same execute);
        # 'raises' (complete() then raises an exception the driver catches); 'finite_ends' (every system has end=2)
        self.style = style
        self.end = 2 if style == 'finite_ends' else None
        self.config = {'pos': pos, 'tc': tc, 'horizon': horizon, 'second': second, 'quiet': quiet, 'style': style}
        self.cn = Canon()

    def fresh(self):
        w = World()
        if self.style == 'truthy':
            # a model class with its own truth value (so that `model or default` works as an existence test): whether it
            # is running is what is_running() says
            class Truthy(Core.Model):
                def __bool__(self):
                    return True
            w.model = m = new_model(seed=1, cls=Truthy)
        elif self.style == 'broken_logger':
            # the caller's logger cannot emit (its handler's sink was closed): a refused request may fail with the
            # handler's error or be refused as documented - the model is untouched either way
            class Closed(logging.Handler):
                def emit(self_, record):
                    raise OSError('log sink closed')
            lg = logging.getLogger('c06-broken')
            lg.setLevel(logging.DEBUG)
            lg.propagate = False
            lg.handlers[:] = [Closed()]
            w.model = m = Core.Model(seed=1, logger=lg)
        elif self.style == 'gated':
            # a model class that refines is_running() with a condition of its own that can flip back and forth (say,
            # "somebody is still alive"): completion is permanent all the same
            class Gated(Core.Model):
                gate = True

                def is_running(self):
                    return self.gate and super().is_running()
            w.model = m = new_model(seed=1, cls=Gated)
        elif self.quiet:       # a model built with the caller's own logger, set above INFO
            lg = logging.getLogger('c06-quiet')
            lg.setLevel(logging.ERROR)
            w.model = m = Core.Model(seed=1, logger=lg)
        else:
            w.model = m = new_model(seed=1)
        w.log = log = []
        tc = self.tc

        class Rec(Core.System):
            def execute(self):
                log.append(self.id)
        if self.style == 'mixin':
            # systems whose execute() is not written in a System subclass body: inherited from a mixin listed first, or
            # assigned to the class afterwards
            class Logs:
                def execute(self):
                    log.append(self.id)

            class Rec(Logs, Core.System):      # noqa - redefinition on purpose
                pass

        style = self.style
        if style == 'falsy':
            # system objects that are falsy (container-like: their length is what they hold - nothing)
            Rec.__len__ = lambda self_: 0

        class Completer(Core.System):
            if style == 'falsy':
                def __len__(self):
                    return 0

            def execute(self):
                log.append(self.id)
                if self.model.systems.timestep == tc:
                    if style == 'spawning' and 'new' not in self.model.systems.systems:
                        self.model.systems.add_system(w.objs['new'])      # a last-minute registration
                    self.model.complete()
                    if style == 'unimplemented':
                        super().execute()              # the base class's execute(): NotImplementedError
                    if style == 'self_removing':
                        self.clean_up()
                    elif style == 'raises':
                        raise Halt('stop the run')

        kw = {} if self.end is None else {'end': self.end}
        class LogCollector(AgentCollector):
            """An agent collector is a system like any other: once the model is complete it does not collect."""

            def collect(self):
                log.append(self.id)
                super().collect()

        w.objs = {}
        w.reg = []            # (priority, seq, key)
        w.seq = 0
        w.completers = {}
        if POS[self.pos] is not None:
            w.objs['cp'] = Completer('cp', m, priority=POS[self.pos], **kw)
            w.completers['cp'] = tc
        if self.second:
            w.objs['cp2'] = Completer('cp2', m, priority=1, **kw)
            w.completers['cp2'] = tc
        for key, prio in RECS:
            w.objs[key] = Rec(key, m, priority=prio, **kw)
        w.objs['new'] = Rec('new', m, priority=3, **kw)
        ag = Core.Agent('ag', m)
        m.environment.add_agent(ag)
        w.objs['ac'] = LogCollector(m, lambda a: 1, id='ac', **kw)        # default collector priority (-1)

        class LogFile(FileCollector):
            """A buffering file collector (flushes every third collection): it is a system like any other."""

            def collect(self):
                log.append(self.id)
                self.records.append(f't{self.model.systems.timestep};')

        w.path = os.path.join(_scratch_dir(), 'fc.txt')
        if os.path.exists(w.path):
            os.remove(w.path)
        w.objs['fc'] = LogFile('fc', m, w.path, write_count=2, **kw)
        # registration: the completer first, so that for equal priority it precedes the recorder ('mid')
        for key in (['cp'] if 'cp' in w.objs else []) + [k for k, _ in RECS] + (['cp2'] if self.second else []) + ['ac', 'fc']:
            self._register(w, key)
        # the lowest recorder is ALSO registered with a second, independent model that is alive (and running) all the
        # time: whether it runs in a timestep of the first model is the first model's business alone
        w.m2 = new_model(seed=2)
        w.m2.systems.add_system(w.objs['rm'])
        w.running = True
        w.completed = False
        w.gate = True
        w.t = 0
        w.last = None
        return w

    def _register(self, w, key):
        w.model.systems.add_system(w.objs[key])
        w.reg.append((w.objs[key].priority, w.seq, key))
        w.seq += 1

    def ops(self, w):
        ops = [['complete']]
        if self.style == 'gated':
            ops.append(['gate', 0 if w.gate else 1])
        if not w.running or w.t < self.horizon:      # while running the clock is bounded by the horizon
            ops += [['execute', 1], ['execute', 2], ['execute', 3], ['xs'], ['xs_throw'], ['xs_old']]
        names = {k for _, _, k in w.reg}
        for k in ('r0', 'rm', 'new'):
            if k in names:
                if k != 'new':
                    ops.append(['remove', k])
            else:
                ops.append(['add', k])
        return ops

    def _expected_step(self, w):
        """Reference for one running timestep: returns (log entries, completes?)."""
        out = []
        if self.end is not None and w.t > self.end:
            return out, False            # every window has closed
        for prio, seq, key in sorted(w.reg, key=lambda r: (-r[0], r[1])):
            out.append(key)
            if key in w.completers and w.t == w.completers[key]:
                if self.style == 'self_removing':
                    w.reg = [r for r in w.reg if r[2] != key]
                if self.style == 'spawning' and 'new' not in {r[2] for r in w.reg}:
                    w.reg.append((w.objs['new'].priority, w.seq, 'new'))
                    w.seq += 1
                return out, True
        return out, False

    def apply(self, w, op):
        m = w.model
        kind = op[0]
        if kind == 'add':
            self._register(w, op[1])
            self._status(w, op)
            return
        if kind == 'remove':
            m.systems.remove_system(op[1])
            w.reg = [r for r in w.reg if r[2] != op[1]]
            self._status(w, op)
            return
        if kind == 'gate':
            n0 = len(w.log)
            m.gate = bool(op[1])
            w.gate = bool(op[1])
            w.running = w.gate and not w.completed
            if len(w.log) != n0:
                raise Violation('flipping the model\'s own running condition made a system run')
            self._status(w, op)
            return
        if kind == 'complete':
            n0 = len(w.log)
            recs = len(w.objs['ac'].records)
            held, text = list(w.objs['fc'].records), _read(w.path)
            m.complete()
            w.running = False
            w.completed = True
            if len(w.log) != n0 or len(w.objs['ac'].records) != recs:
                raise Violation('marking the model complete made a system run / a collector collect',
                                expected=[], observed=w.log[n0:])
            if list(w.objs['fc'].records) != held or _read(w.path) != text:
                raise Violation('marking the model complete made the file collector collect or write',
                                expected=[held, text], observed=[list(w.objs['fc'].records), _read(w.path)])
            self._status(w, op)
            return
        n = op[1] if kind == 'execute' else 1
        n0 = len(w.log)
        if not w.running:
            before = public_snapshot(m)
            raised = None
            try:
                if kind == 'execute':
                    m.execute(n)
                elif kind == 'xs':
                    m.systems.execute_systems()
                elif kind == 'xs_old':
                    m.systems.executeSystems()      # the deprecated spelling is still an entry point
                else:
                    m.systems.execute_systems(throw_error=True)
            except Core.ModelCompleteError as e:
                raised = e
            except OSError as e:
                if self.style != 'broken_logger':
                    raise
                raised = e
            if self.style == 'broken_logger':
                # (what reaches the caller is the handler's error or the documented outcome; only the model is judged)
                if len(w.log) != n0 or public_snapshot(m) != before:
                    raise Violation(f'{op} on a complete model whose logger cannot emit: systems ran or the model changed',
                                    expected=f'timestep {w.t}, nothing ran', observed=[m.timestep, w.log[n0:]])
                w.last = ('complete', w.t, ())
                self._status(w, op)
                return
            if kind == 'xs_throw' and raised is None:
                raise Violation('execute_systems(throw_error=True) on a complete model did not raise',
                                expected='ModelCompleteError', observed='no exception')
            if kind == 'xs_throw':
                # asked to raise with a flag that is true without being the object True (the outcome of a numpy
                # comparison, a count, a non-empty string)
                import numpy as _np
                for flag in (1, _np.bool_(True), _np.array([3])[0] > 2, 'yes'):
                    try:
                        m.systems.execute_systems(throw_error=flag)
                    except Core.ModelCompleteError:
                        continue
                    raise Violation(f'execute_systems(throw_error={flag!r}) on a complete model did not raise',
                                    expected='ModelCompleteError', observed='no exception')
                # the same request from other calling contexts: inside a generator-driven loop and through map() -
                # the documented error arrives there as well (it is not swallowed as "end of iteration")
                def driver():
                    yield 0
                    m.systems.execute_systems(throw_error=True)
                    yield 1
                g = driver()
                next(g)
                for how, call in (('a generator-driven loop', lambda: next(g)),
                                  ('map()', lambda: list(map(lambda mm: mm.systems.execute_systems(throw_error=True), [m, m])))):
                    try:
                        got = call()
                    except Core.ModelCompleteError:
                        continue
                    except BaseException as e:      # noqa
                        raise Violation(f'execute_systems(throw_error=True) on a complete model, called from {how}: the '
                                        f'caller gets {type(e).__name__} instead of ModelCompleteError',
                                        expected='ModelCompleteError', observed=f'{type(e).__name__}: {e}')
                    raise Violation(f'execute_systems(throw_error=True) on a complete model, called from {how}: no error '
                                    f'reached the caller', expected='ModelCompleteError', observed=repr(got))
            if kind != 'xs_throw' and raised is not None:
                raise Violation(f'{op} on a complete model raised ModelCompleteError without being asked to')
            if len(w.log) != n0:
                raise Violation(f'{op}: systems ran after the model was complete', expected=[],
                                observed=w.log[n0:])
            if public_snapshot(m) != before:
                raise Violation(f'{op}: advancing a complete model changed model state',
                                expected=f'timestep {w.t}', observed=f'timestep {m.timestep}')
            w.last = ('complete', w.t, ())
            self._status(w, op)
            return
        # running: n steps, possibly completing on the way
        exp = []
        completed_at = None
        for i in range(n):
            if not w.running:
                break
            entries, completes = self._expected_step(w)
            exp += entries
            if completes:
                w.running = False
                w.completed = True
                completed_at = w.t
            else:
                w.t += 1
        try:
            if kind == 'execute':
                m.execute(n)
            elif kind == 'xs':
                m.systems.execute_systems()
            elif kind == 'xs_old':
                m.systems.executeSystems()
            else:
                m.systems.execute_systems(throw_error=True)   # behaves as a step while running
        except OSError:
            # (broken_logger: a request of several steps meets the completed model on the way and the refusal cannot be logged)
            if self.style != 'broken_logger' or completed_at is None:
                raise
        except (Halt, NotImplementedError):
            if completed_at is None:
                raise Violation(f'{op}: the completer raised although it was not its completing timestep')
        got = w.log[n0:]
        if got != exp:
            raise Violation(f'{op}: executed systems differ (completion must skip the rest of the timestep and all '
                            f'later steps)', expected=exp, observed=got)
        if completed_at is not None:
            # the property does not say whether the completing timestep bumps the clock: accept either, freeze it
            if m.timestep not in (completed_at, completed_at + 1):
                raise Violation(f'{op}: clock after the completing timestep {completed_at} is {m.timestep}',
                                expected=[completed_at, completed_at + 1], observed=m.timestep)
            w.t = m.timestep
        w.last = ('running' if w.running else 'complete', w.t, tuple(got))
        self._status(w, op)

    def _status(self, w, op):
        m = w.model
        if m.is_running() != w.running or (bool(m) != w.running and self.style != 'truthy'):
            raise Violation(f'after {op}: is_running()={m.is_running()} bool(model)={bool(m)}', expected=w.running,
                            observed=[m.is_running(), bool(m)])
        if m.timestep != w.t or m.systems.timestep != w.t:
            raise Violation(f'after {op}: clock {m.timestep}/{m.systems.timestep}', expected=w.t,
                            observed=[m.timestep, m.systems.timestep])

    def check(self, w):
        self._status(w, 'state')

    def canon(self, w):
        return self.cn(w.model, list(w.objs.values()))

    def refstate(self, w):
        return (tuple(k for _, _, k in w.reg), tuple(k for _, _, k in sorted(w.reg, key=lambda r: (-r[0], r[1]))),
                w.running, w.t, w.completed, w.gate)

    def outcome(self, w):
        return w.last


def configs(tier):
    for pos in POS:
        for tc in (TCS if pos != 'none' else [0]):
            yield (pos, tc, 4 if tier == 'quick' else 6, False)
    for pos in POS:
        yield (pos, 1, 4 if tier == 'quick' else 6, False, True)       # caller-supplied quiet logger
    for style in ('self_removing', 'raises', 'finite_ends', 'gated', 'spawning', 'unimplemented', 'truthy', 'broken_logger',
                  'mixin', 'falsy'):
        for pos in ('first', 'mid', 'last'):
            for tc in ((1,) if tier == 'quick' else TCS):
                yield (pos, tc, 4 if tier == 'quick' else 6, False, False, style)
    # no completing system, every window closes at 2: completion from outside after all windows have closed
    yield ('none', 0, 5 if tier == 'quick' else 7, False, False, 'finite_ends')
    if tier == 'thorough':
        for pos in ('first', 'last'):
            for tc in TCS:
                yield (pos, tc, 6, True)


def explore_cfg(ctx, cfg):
    h = Harness(*cfg)
    name = f'{cfg[0]}@t{cfg[1]}' + ('+second' if cfg[3] else '') + ('+quietlogger' if len(cfg) > 4 and cfg[4] else '') + \
        (f'+{cfg[5]}' if len(cfg) > 5 else '')
    r = hbfs.explore(ctx, h, name, max_depth=40, procs=1)
    ctx.leg(name, **r)
    if not r.get('fixpoint') and not r.get('aborted'):
        ctx.cap(f'{name}: fixpoint not reached')


# the cheap legs run once more under the runner's ambient configurations (python -O, other logger levels)
AMBIENT_LEGS = True


class SlowCollector(AgentCollector):
    pass


class SelfStopping(Core.Model):
    """Completes itself at timestep tc; a plain collector of frequency `freq` records (timestep, is the model running)."""

    def __init__(self, tc, freq):
        super().__init__(seed=1)
        tc_ = tc

        class Stop(Core.System):
            def execute(self):
                if self.model.systems.timestep == tc_:
                    self.model.complete()

        class Probe(AgentCollector.__mro__[1]):        # ECAgent.Collectors.Collector
            def collect(self):
                self.records.append((self.model.systems.timestep, self.model.is_running()))
        self.systems.add_system(Stop('stop', self, priority=5))
        self.systems.add_system(Probe('probe', self, frequency=freq))


def after_completion_case(case):
    """What a completed model does with MANY and with LARGE advance requests, for sparse schedules (nothing due for a
    long while): nothing runs, the clock stands still, and the strict request raises - the 2000th time like the first."""
    from mc.engine.seams import reset_library
    reset_library()
    m = new_model(seed=1)
    log = []

    class Rec(Core.System):
        def execute(self):
            log.append((self.id, self.model.systems.timestep))

        def clean_up(self):          # user code as well: a completed model does not call it on its own
            log.append((self.id, 'clean_up'))
            super().clean_up()
    for sid, kw in (('every9', {'frequency': 9}), ('late', {'start': 40}), ('over', {'end': 1}), ('each', {})):
        if sid in case['systems']:
            m.systems.add_system(Rec(sid, m, **kw))
    m.execute(case['warm'])
    if case.get('inside'):
        # the model is completed by a system DURING the next timestep (its last)
        class Fin(Core.System):
            def execute(self):
                self.model.complete()
        m.systems.add_system(Fin('fin', m, priority=-5))
        m.execute()
    n0, t0 = len(log), m.timestep
    m.complete()
    snap0 = public_snapshot(m)
    for i in range(case['requests']):
        k = i % 4
        if k == 0:
            m.execute()
        elif k == 1:
            m.execute(case['big'])
        elif k == 2:
            m.systems.execute_systems()
        else:
            try:
                m.systems.execute_systems(throw_error=True)
            except Core.ModelCompleteError:
                pass
            else:
                raise Violation(f'advance request {i} on the completed model: execute_systems(throw_error=True) did not '
                                f'raise', expected='ModelCompleteError', observed='no exception')
        if len(log) != n0 or m.timestep != t0 or m.systems.timestep != t0 or m.is_running() or \
                (i % 97 == 0 and public_snapshot(m) != snap0):
            raise Violation(f'advance request {i} ({["execute()", "execute(%d)" % case["big"], "execute_systems()", "strict"][k]}) '
                            f'on a completed model with systems {case["systems"]}: something ran, the clock moved or the '
                            f'model runs again', expected=[n0, t0, False],
                            observed=[len(log), m.timestep, m.is_running()])
    return case['requests']


class _DictDecoder(Decode.Decoder):
    """A decoder fed with a description it holds (no file)."""

    def __init__(self, data):
        self.data = data

    def open_file(self, file_name):
        return copy.deepcopy(self.data)


_DEC = {'log': [], 'model': None, 'at': None}


def _dec_maybe_complete(point):
    if _DEC['at'] == point and _DEC['model'] is not None:
        _DEC['model'].complete()


class DecModel(Core.Model, Decode.IDecodable):
    @staticmethod
    def decode(params):
        m = DecModel(seed=1)
        _DEC['model'] = m
        _dec_maybe_complete('model_decode')
        return m


class DecSys(Core.System, Decode.IDecodable):
    def execute(self):
        _DEC['log'].append((self.id, self.model.systems.timestep))

    @staticmethod
    def decode(params):
        s = DecSys(params['id'], params['model'], priority=params.get('priority', 0))
        _dec_maybe_complete('system_decode:' + params['id'])
        return s


class DecAgent(Core.Agent, Decode.IDecodable):
    @staticmethod
    def decode(params):
        a = DecAgent(f'a{params["agent_index"]}', params['model'])
        _dec_maybe_complete(f'agent_decode:{params["agent_index"]}')
        return a


def dec_hook(params):
    _dec_maybe_complete(params['point'])


DEC_POINTS = ['model_decode', 'pre_system:s0', 'system_decode:s0', 'post_system:s0', 'pre_system:s1', 'system_decode:s1',
              'post_system:s1', 'pre_agent', 'agent_decode:0', 'agent_decode:1', 'post_agent', 'post_model']


def decoded_case(case):
    """The model is marked complete WHILE it is being decoded from a description (by the model's / a system's / an
    agent's decode method or by one of the init hooks): the decoder hands back a completed model, on which nothing runs."""
    from mc.engine.seams import reset_library
    reset_library()
    me = __name__
    _DEC.update(log=[], model=None, at=case['at'])

    def hook(point):
        return {'func': 'dec_hook', 'module': me, 'params': {'point': point}}
    data = {'model': {'name': 'DecModel', 'module': me, 'params': {}},
            'systems': [{'name': 'DecSys', 'module': me, 'params': {'id': sid, 'priority': pr},
                         'pre_system_init': hook(f'pre_system:{sid}'), 'post_system_init': hook(f'post_system:{sid}')}
                        for sid, pr in (('s0', 1), ('s1', 0))],
            'agents': [{'name': 'DecAgent', 'module': me, 'number': 2, 'params': {}, 'pre_agent_init': hook('pre_agent'),
                        'post_agent_init': hook('post_agent')}],
            'post_model_decode': hook('post_model')}
    m = _DictDecoder(data).decode('unused')
    if m is not _DEC['model']:
        raise Violation('the decoder handed back another model than the one it built')
    if m.is_running():
        raise Violation(f'the model was marked complete while it was decoded (at {case["at"]}): the decoder hands back a model '
                        f'that reports itself as running', expected=False, observed=True)
    t0 = m.timestep
    for req in ('execute()', 'execute(3)', 'execute_systems()', 'strict'):
        try:
            if req == 'execute()':
                m.execute()
            elif req == 'execute(3)':
                m.execute(3)
            elif req == 'execute_systems()':
                m.systems.execute_systems()
            else:
                m.systems.execute_systems(throw_error=True)
        except Core.ModelCompleteError:
            if req != 'strict':
                raise Violation(f'{req} on the decoded, completed model raised ModelCompleteError')
        else:
            if req == 'strict':
                raise Violation('execute_systems(throw_error=True) on the decoded, completed model did not raise',
                                expected='ModelCompleteError', observed='no exception')
        if _DEC['log'] or m.timestep != t0 or m.systems.timestep != t0 or m.is_running():
            raise Violation(f'model completed while decoded (at {case["at"]}), then {req}: something ran, the clock moved or '
                            f'the model runs again', expected=[[], t0, False],
                            observed=[list(_DEC['log']), m.timestep, m.is_running()])
    return 4


def reentrant_case(case):
    """A system advances its OWN model from inside its turn (guarded against recursion) and the model is completed -
    after the nested step has returned, or by a system inside the nested step.  Whatever the nesting does to the order
    of things, nothing runs once complete() has been called."""
    from mc.engine.seams import reset_library
    reset_library()
    m = new_model(seed=1)
    log = []

    class Rec(Core.System):
        def execute(self):
            log.append(self.id)

    class Nester(Core.System):
        busy = False

        def execute(self):
            log.append(self.id)
            if self.model.systems.timestep == 1 and not Nester.busy:
                Nester.busy = True
                try:
                    self.model.execute()
                finally:
                    Nester.busy = False
                if case['where'] == 'after':
                    log.append('COMPLETE')
                    self.model.complete()

    class InnerStop(Core.System):
        def execute(self):
            log.append(self.id)
            if case['where'] == 'inside' and Nester.busy:
                log.append('COMPLETE')
                self.model.complete()
    prio = {'first': 3, 'mid': 1, 'last': -3}[case['pos']]
    for s in (Rec('a', m, priority=2), Nester('nest', m, priority=prio), InnerStop('stop', m, priority=0),
              Rec('b', m, priority=-1), Rec('c', m, priority=-2)):
        m.systems.add_system(s)
    m.execute(3)
    if 'COMPLETE' not in log or m.is_running():
        raise Violation('the model was not completed by the nested scenario', observed=log)
    tail = log[log.index('COMPLETE') + 1:]
    if tail:
        raise Violation(f'systems ran after complete() was called (completion {case["where"]} a nested step started by the '
                        f'{case["pos"]} system)', expected=[], observed=tail)
    t = m.timestep
    n = len(log)
    m.execute(2)
    m.systems.execute_systems()
    if len(log) != n or m.timestep != t:
        raise Violation('a completed model was advanced after a nested completion')
    return len(log)


def batch_case(case):
    """A batch over models that complete themselves: no collector takes a record once its model is complete (whatever
    its frequency), with one and with two processes."""
    import ECAgent.Batching as Batching
    from mc.engine.seams import reset_library
    reset_library()
    tcs, freqs = [0, 1, 2, 3, 4, 5], [1, 2, 3]
    got = Batching.batch_run(SelfStopping, {'tc': tcs, 'freq': freqs}, collectors='probe', processes=case['procs'],
                             max_timesteps=case['limit'])
    exp = []
    for tc in tcs:
        for f in freqs:
            # the stopper (priority 5) runs before the collector: at timestep tc nothing is collected any more
            exp.append([(t, True) for t in range(0, min(tc, case['limit'])) if t % f == 0])
    if sorted(map(repr, got)) != sorted(map(repr, exp)):
        bad = [g for g in got if any(not running for _, running in g)]
        raise Violation(f'batch over self-completing models (processes={case["procs"]}, max_timesteps={case["limit"]}): a '
                        f'collector recorded after its model was complete / records differ', expected=exp[:6],
                        observed=(bad or got)[:6])
    return len(got)


RELOAD_CHILD = r"""
import importlib, sys
sys.path.insert(0, sys.argv[1])
import ECAgent.Core as Core
import ECAgent.Decode as Decode
m = Core.Model(seed=1)
log = []
class S(Core.System):
    def execute(self):
        log.append(self.model.systems.timestep)
m.systems.add_system(S('s', m))
m.execute(2)
if sys.argv[2] == 'complete_first':
    m.complete()
    importlib.reload(Core)          # a notebook's autoreload: the library module is executed again in place
else:
    importlib.reload(Core)
    m.complete()
out = [m.is_running()]
for call in (lambda: m.execute(), lambda: m.systems.execute_systems(), lambda: m.execute(3)):
    call()
try:
    m.systems.execute_systems(throw_error=True)
    out.append('no error')
except Exception as e:
    out.append(type(e).__name__)
out += [m.is_running(), m.timestep, m.systems.timestep, log]
print('RESULT ' + repr(out))
"""


def reload_case(case):
    """The library module is reloaded (importlib.reload, as a notebook's autoreload does) around the completion of a
    model built before: completion is permanent for that model object all the same."""
    import subprocess
    import sys as _sys
    tree = os.path.dirname(os.path.dirname(os.path.abspath(Core.__file__)))
    r = subprocess.run([_sys.executable, '-c', RELOAD_CHILD, tree, case['order']], capture_output=True, text=True,
                       env=dict(os.environ, PYTHONHASHSEED='0'), timeout=300)
    line = next((ln for ln in r.stdout.splitlines() if ln.startswith('RESULT ')), None)
    exp = "[False, 'ModelCompleteError', False, 2, 2, [0, 1]]"
    if line is None or line[7:] != exp:
        raise Violation(f'a model completed {"before" if case["order"] == "complete_first" else "after"} the library module '
                        f'was reloaded: [is_running, strict request, is_running, timestep, scheduler timestep, executions]',
                        expected=exp, observed=line[7:] if line else (r.stderr.strip().splitlines() or [''])[-1])
    return 5


def run(ctx):
    parent = tempfile.mkdtemp(prefix='c06-run-')
    os.environ['C06_SCRATCH_PARENT'] = parent
    try:
        _run(ctx)
    finally:
        os.environ.pop('C06_SCRATCH_PARENT', None)
        shutil.rmtree(parent, ignore_errors=True)


def _run(ctx):
    for procs in (1, 2):
        for limit in (3, 10):
            case = {'leg': 'batch', 'procs': procs, 'limit': limit}
            ctx.traces += 1
            try:
                ctx.transitions += hbfs._guard(batch_case, case)
                ctx.outcome(('batch', procs, limit))
            except Violation as v:
                ctx.report(case, v)
                return
    ctx.leg('batch', cases=4, note='batch_run over self-completing models with collectors of frequency 1, 2, 3')
    extra = [{'leg': 'after_completion', 'systems': sy, 'warm': w_, 'requests': 2400 if not ctx.small else 40, 'big': big}
             for sy in (['every9'], ['late'], ['over', 'each'], ['every9', 'late', 'over']) for w_ in (2, 5)
             for big in (8, 20)]
    # completion at and around timesteps 64 / 128 / 256 (amortised house-keeping), from outside and by a system
    extra += [{'leg': 'after_completion', 'systems': ['over', 'each', 'every9'], 'warm': w_, 'requests': 70, 'big': 8, 'inside': ins}
              for w_ in (62, 63, 64, 127, 128, 255, 256) for ins in (False, True)]
    extra += [{'leg': 'reentrant', 'where': wh, 'pos': pos} for wh in ('after', 'inside') for pos in ('first', 'mid', 'last')]
    extra += [{'leg': 'decoded', 'at': at} for at in DEC_POINTS]
    for case in extra:
        ctx.traces += 1
        try:
            fn = {'after_completion': after_completion_case, 'reentrant': reentrant_case, 'decoded': decoded_case}[case['leg']]
            ctx.transitions += hbfs._guard(fn, case)
            ctx.outcome((case['leg'], repr(sorted(case.items()))))
        except Violation as v:
            ctx.report(case, v)
            return
    if not ctx.small:
        for order in ('complete_first', 'reload_first'):
            case = {'leg': 'reload', 'order': order}
            ctx.traces += 1
            try:
                ctx.transitions += hbfs._guard(reload_case, case)
            except Violation as v:
                ctx.report(case, v)
                return
    ctx.leg('after_completion_and_reentrant', cases=len(extra), note='+ the library module reloaded around the completion '
                                                                     '(fresh interpreter)')
    from mc.engine import par
    cfgs = list(configs(ctx.tier))
    if ctx.small:
        cfgs = cfgs[::5]
    par.pmap(ctx, explore_cfg, cfgs, procs=ctx.procs)


def replay(case):
    if case['leg'] == 'batch':
        hbfs._guard(batch_case, case)
        return
    if case['leg'] == 'reload':
        hbfs._guard(reload_case, case)
        return
    if case['leg'] in ('after_completion', 'reentrant', 'decoded'):
        hbfs._guard({'after_completion': after_completion_case, 'reentrant': reentrant_case,
                     'decoded': decoded_case}[case['leg']], case)
        return
    c = case['config']
    hbfs.replay_case(Harness(c['pos'], c['tc'], c['horizon'], c['second'], c.get('quiet', False),
                             c.get('style', 'plain')), case)
