"""C07 - same seed, same trajectory, independent of global state and other models.

E4: atomic step = building one model, one model.execute() of one model, or one perturbation of ambient state
(reseeding / consuming random and numpy.random, building and stepping an unrelated model).  ALL merge orders of
the step sequences of 2-3 models and a perturbation sequence are executed on fresh objects, and every model's full
trace digest must equal its solo digest.  Around it, a finite matrix of process configurations is enumerated
completely: PYTHONHASHSEED in {0, 1, 4242, random} x {fresh interpreter, fork, spawn, batch_run(processes=1),
batch_run(processes=2)}.
"""
import hashlib
import json
import multiprocessing
import os
import random
import subprocess
import sys

import numpy as np

from mc.engine import hbfs, par
from mc.engine.report import Violation
from mc.engine.seams import reset_library

import ECAgent.Core as Core
import ECAgent.Environments as Envs
import ECAgent.Batching as Batching
from ECAgent.Collectors import Collector, AgentCollector

# swap: the model alternates between two worlds (day / night); late_seed: the model is built unseeded, lets the framework
# pick once, and is handed its seed afterwards by installing a seeded generator as model.random
# self_seeded: the subclass idiom super().__init__() followed by self.random.seed(seed)
KINDS = ['plain', 'grid', 'space', 'swap', 'late_seed', 'self_seeded']
CROWD = 600          # more agents than any small-scope threshold a fast path might use

META = {
    'rule': 'every multiset permutation of the atoms of 2-3 models (build, step, ...) and the perturbation atoms; one '
            'execution per interleaving on fresh objects; process matrix enumerated completely; distinct_nontrivial '
            'counts distinct (combination, interleaving) executions whose digests were compared',
    'alphabet': {'model kinds': KINDS, 'combinations': 'plain+grid, grid+space, plain+plain (same seed), space+plain; '
                 'thorough: plain+grid+space', 'perturbations': ['random.seed(k) + random.random()',
                                                               'numpy.random.seed(k) + draws + an unrelated model '
                                                               'built and stepped'],
                 'process matrix': 'PYTHONHASHSEED 0,1,4242,random x fresh interpreter, fork, spawn, batch_run p=1, p=2'},
    'bounds': {'quick': '2 models x (build + 2 steps + finish) + 2 perturbations = 6300 interleavings per combination, 4 '
                        'combinations, 1 seed pair; matrix: 4 hash seeds x fresh interpreter, fork/spawn/batch under '
                        'hash seed 0', 'thorough': '(build + 3 steps + finish), 3-model combination, full matrix'},
    'assumptions': ['falsy seeds (0, 0.0, empty string, False) are in the seed alphabet of the repeat and process-matrix legs '
                    'for every VERIF_SEED', 'seeds come from VERIF_SEED (seed*1000+i); the enumerated structure and the verdict do not depend '
                    'on them', 'the scripted models draw only from model.random and through the library'],
}


class Wealth(Core.Component):
    __slots__ = ['w']

    def __init__(self, agent, model, w):
        super().__init__(agent, model)
        self.w = w


class Marker(Core.Component):
    pass


class Trace(Collector):
    """records = the full trace: system executions, picks, shuffles, positions, values."""

    def collect(self):
        env = self.model.environment
        row = []
        for a in env:
            pos = a[Envs.PositionComponent].xyz() if Envs.PositionComponent in a else None
            row.append((a.id, a[Wealth].w, pos, a.tag))
        self.records.append(('state', self.model.systems.timestep, row))


class Gift(Core.System):
    def execute(self):
        m = self.model
        env = m.environment
        tr = m.systems['trace'].records
        tr.append(('exec', self.id, m.systems.timestep))
        order = env.shuffle(Wealth)
        tr.append(('shuffle', [a.id for a in order]))
        for a in order:
            if a[Wealth].w > 0:
                b = env.get_random_agent(Wealth)
                tr.append(('pick', a.id, b.id))
                a[Wealth].w -= 1
                b[Wealth].w += 1
        rich = env.get_random_agent(tag=1)
        tr.append(('rich', None if rich is None else rich.id))
        # a template of two component types (filtered differently from the single-type and unfiltered paths)
        both = env.shuffle(Wealth, Marker)
        tr.append(('both', [a.id for a in both]))
        pick2 = env.get_random_agent(Marker, Wealth, tag=0)
        tr.append(('pick2', None if pick2 is None else pick2.id))
        if len(env) > 2 and m.random.random() < 0.4:
            victim = env.get_random_agent()
            tr.append(('death', victim.id))
            env.remove_agent(victim.id)
        if m.random.random() < 0.6:
            m.born += 1
            a = Core.Agent(f'n{m.born}', m, tag=m.born % 2)
            a.add_component(Wealth(a, m, m.random.randint(0, 3)))
            if m.born % 3 != 0:
                a.add_component(Marker(a, m))
            self._add(a)
            tr.append(('birth', a.id))

    def _add(self, a):
        m = self.model
        env = m.environment
        if m.kind in ('plain', 'crowd', 'crowd_big', 'late_seed', 'self_seeded'):
            env.add_agent(a)
        elif m.kind in ('grid', 'swap'):
            env.add_agent(a, m.random.randrange(env.width), m.random.randrange(env.height))
        else:
            env.add_agent(a, m.random.uniform(0, env.width), m.random.uniform(0, env.height))


class Boot(Core.System):
    """One-shot system: runs once, then removes itself (so the scheduler's removal path is part of every run)."""

    def execute(self):
        self.model.systems['trace'].records.append(('exec', self.id, self.model.systems.timestep))
        self.clean_up()


class Walk(Core.System):
    def execute(self):
        m = self.model
        env = m.environment
        tr = m.systems['trace'].records
        tr.append(('exec', self.id, m.systems.timestep, m.random.random()))     # draws even in the plain model
        if m.kind in ('plain', 'crowd', 'crowd_big', 'late_seed', 'self_seeded'):
            return
        for a in env.shuffle():
            if m.kind in ('grid', 'swap'):
                dx, dy = m.random.choice([(1, 0), (-1, 0), (0, 1), (0, -1), (2, 2)])
                env.move(a, dx, dy)
                cells = env.get_moore_neighbours(a[Envs.PositionComponent], 1)
                tr.append(('cell', a.id, m.random.choice(cells)))
                # the tuple form of the answer is the caller's list: shuffled in place here, as models do
                around = env.get_neumann_neighbours(a[Envs.PositionComponent], 2, True, tuple)
                m.random.shuffle(around)
                tr.append(('around', a.id, around[0]))
            else:
                env.move(a, m.random.uniform(-1.5, 1.5), m.random.uniform(-1.5, 1.5))
                near = env.get_agents_at(a[Envs.PositionComponent].x, a[Envs.PositionComponent].y, leeway=2.0)
                tr.append(('near', a.id, [b.id for b in near]))


class Swap(Core.System):
    """Every timestep the whole population moves to the model's other world, which is then installed (day, night, day
    again, ...): a world that was replaced comes back later."""

    def execute(self):
        m = self.model
        tr = m.systems['trace'].records
        cur = m.environment
        nxt = m.worlds[(m.worlds.index(cur) + 1) % len(m.worlds)]
        for a in cur.shuffle():
            cur.remove_agent(a.id)
            nxt.add_agent(a, m.random.randrange(nxt.width), m.random.randrange(nxt.height))
        if m.systems.timestep % 2:
            m.set_environment(nxt)
        else:
            m.environment = nxt
        tr.append(('swap', m.systems.timestep, [a.id for a in nxt]))


def _even(seed):
    return seed % 2 == 0 if isinstance(seed, int) else len(str(seed)) % 2 == 0


class SModel(Core.Model):
    def __init__(self, kind='plain', seed=1, n=5, horizon=None):
        super().__init__(seed=None if kind in ('late_seed', 'self_seeded') else seed)
        if kind == 'self_seeded':
            self.random.seed(seed)
        self.kind = kind
        if kind == 'crowd':
            n = CROWD
        if kind == 'crowd_big':
            n = 1100          # above 1024
        self.born = 0
        self.horizon = horizon
        if kind == 'grid':
            self.environment = Envs.GridWorld(self, 5, 4, wrap_env=_even(seed))
        elif kind == 'swap':
            self.worlds = [Envs.GridWorld(self, 5, 4, wrap_env=_even(seed)), Envs.GridWorld(self, 3, 3)]
            self.environment = self.worlds[0]
            self.systems.add_system(Swap('swap', self, priority=4))
        elif kind == 'space':
            self.environment = Envs.SpaceWorld(self, 10.0, 8.0, wrap_env=True)
        self.systems.add_system(Trace('trace', self))
        self.systems.add_system(Boot('boot', self, priority=3))
        self.systems.add_system(Gift('gift', self, priority=2))
        self.systems.add_system(Walk('walk', self, priority=2))      # same priority as gift: registration order decides
        self.systems.add_system(AgentCollector(self, lambda a: a[Wealth].w, lambda agents: {'n': len(agents)}, True))
        gift = self.systems['gift']
        for i in range(n):
            a = Core.Agent(f'a{i}', self, tag=i % 2)
            a.add_component(Wealth(a, self, 2 + i % 3))
            if i != 1:
                a.add_component(Marker(a, self))
            gift._add(a)
        if kind == 'late_seed':
            self.environment.get_random_agent(Wealth)       # a smoke check of the population (result not used)
            self.environment.shuffle()
            self.random = random.Random(seed)


class OptModel(SModel):
    """A model whose constructor takes its settings as free keyword options (and hands the seed on from there)."""

    def __init__(self, **options):
        super().__init__(options.get('kind', 'plain'), options.get('seed'), options.get('n', 5))


class KwOnlyModel(SModel):
    """A model whose seed is a keyword-only parameter."""

    def __init__(self, kind='plain', *, seed=None, n=5):
        super().__init__(kind, seed, n)


def finish(model):
    """Post-run step: the model is marked complete, then a closing lottery and ranking are drawn through the framework."""
    model.complete()
    env = model.environment
    tr = model.systems['trace'].records
    w = env.get_random_agent(Wealth)
    tr.append(('lottery', None if w is None else w.id))
    tr.append(('ranking', [a.id for a in env.shuffle()]))
    w2 = env.get_random_agent()
    tr.append(('lottery2', None if w2 is None else w2.id))


def digest_of(model):
    blob = repr((model.systems['trace'].records, model.systems['AgentCollector'].records, model.timestep))
    return hashlib.sha1(blob.encode()).hexdigest()


def solo(kind, seed, steps):
    reset_library()
    m = SModel(kind, seed)
    for _ in range(steps):
        m.execute()
    finish(m)
    return digest_of(m)


def solo_nofinish(kind, seed, steps):
    reset_library()
    m = SModel(kind, seed)
    for _ in range(steps):
        m.execute()
    return digest_of(m)


def solo_table(kinds, seeds, steps):
    return {f'{k}:{s}': solo(k, s, steps) for k in kinds for s in seeds}


# ---------------------------------------------------------------------------------------------------------
# interleavings
# ---------------------------------------------------------------------------------------------------------

def merges(counts):
    """All multiset permutations: counts = {label: number of atoms}; atoms of one label keep their order."""
    labels = sorted(counts)
    total = sum(counts.values())
    cur = []

    def rec(left):
        if len(cur) == total:
            yield ''.join(cur)
            return
        for lab in labels:
            if left[lab]:
                left[lab] -= 1
                cur.append(lab)
                yield from rec(left)
                cur.pop()
                left[lab] += 1
    yield from rec(dict(counts))


def perturb(which, k):
    if which == 'P':
        random.seed(k)
        random.random()
        random.shuffle(list(range(5)))
    else:
        np.random.seed(k % 1000)
        np.random.rand(3)
        random.random()
        other = SModel('grid', 999 + k, n=3)
        other.execute()
        other.execute()


def run_interleaving(case):
    """Execute one merge order on fresh objects; return the digests of the participating models."""
    reset_library()
    models = case['models']          # list of [kind, seed]
    steps = case['steps']
    order = case['order']
    built = {}
    done = {}
    npert = 0
    for ch in order:
        if ch in 'PQ':
            npert += 1
            perturb(ch, case['pseed'] + npert)
            continue
        i = ord(ch) - ord('A')
        kind, seed = models[i]
        if i not in built:
            built[i] = SModel(kind, seed)
            done[i] = 0
        elif done[i] < steps:
            built[i].execute()
            done[i] += 1
        else:
            finish(built[i])        # last atom of a model: completion + post-run draws
            done[i] += 1
    out = []
    for i, (kind, seed) in enumerate(models):
        if done.get(i) != steps + 1:
            raise hbfs.HarnessError(f'interleaving {order} does not give model {i} its {steps} steps')
        out.append(digest_of(built[i]))
    return out


def chunk_fn(ctx, chunk):
    solos = {}
    for case in chunk:
        ctx.traces += 1
        ctx.states += 1
        ctx.transitions += len(case['order'])
        try:
            for kind, seed in case['models']:
                if (kind, repr(seed)) not in solos:
                    solos[(kind, repr(seed))] = solo(kind, seed, case['steps'])
            got = hbfs._guard(run_interleaving, case)
            for i, (kind, seed) in enumerate(case['models']):
                if got[i] != solos[(kind, repr(seed))]:
                    raise Violation(f'model {i} ({kind}, seed {seed}) took a different trajectory when its steps were '
                                    f'interleaved as {case["order"]} (A,B,C = models; P,Q = perturbations of '
                                    f'random / numpy.random / an unrelated model)', expected=solos[(kind, repr(seed))],
                                    observed=got[i])
            ctx.outcome((tuple(map(tuple, case['models'])), case['order']))
        except Violation as v:
            ctx.report(case, v)
            if ctx.full():
                return


def interleaving_cases(tier, seed):
    s1, s2, s3 = seed * 1000 + 1, seed * 1000 + 2, seed * 1000 + 3
    steps = 2 if tier == 'quick' else 3
    combos = [[['plain', s1], ['grid', s2]], [['grid', s1], ['space', s2]], [['plain', s1], ['plain', s1]],
              [['space', s2], ['plain', s2]], [['swap', s1], ['grid', f'run-{seed}']], [['late_seed', s1], ['plain', s2]],
              [['self_seeded', s1], ['self_seeded', s2]],
              # seeds that compare equal but are different seeds for random.Random (int / float)
              [['plain', -3 - seed], ['plain', -3.0 - seed]], [['grid', 10 ** 20], ['grid', 1e20]]]
    if tier == 'thorough':
        combos += [[['grid', s3], ['grid', s3]], [['space', s1], ['space', s1]]]
    for models in combos:
        counts = {chr(ord('A') + i): steps + 2 for i in range(len(models))}      # build, steps, finish
        counts['P'] = 1
        counts['Q'] = 1
        for order in merges(counts):
            yield {'leg': 'interleave', 'models': models, 'steps': steps, 'order': order, 'pseed': seed * 7 + 11}
    # one large model (beyond small-population thresholds) with the ambient perturbations at every point of its life
    for order in merges({'A': 3, 'P': 1, 'Q': 1}):
        yield {'leg': 'interleave', 'models': [['crowd', s1]], 'steps': 1, 'order': order, 'pseed': seed * 7 + 11}
    if tier == 'thorough':
        models = [['plain', s1], ['grid', s2], ['space', s3]]
        counts = {'A': 4, 'B': 4, 'C': 4, 'P': 1}
        for order in merges(counts):
            yield {'leg': 'interleave', 'models': models, 'steps': 2, 'order': order, 'pseed': seed * 7 + 11}



# ---------------------------------------------------------------------------------------------------------
# process matrix
# ---------------------------------------------------------------------------------------------------------

CHILD = r'''
import json, sys
sys.path.insert(0, sys.argv[1]); sys.path.insert(0, sys.argv[2])
import mc.props.c07 as c07
print(json.dumps(c07.matrix_cell(sys.argv[3], json.loads(sys.argv[4]), int(sys.argv[5]))))
'''


def _mp_solo(args):
    kind, seed, steps = args
    random.seed(12345)          # ambient state of a worker differs from the parent's
    np.random.seed(99)
    return solo(kind, seed, steps)


def matrix_cell(how, seeds, steps):
    """Digest table computed in this process in the manner `how`."""
    tasks = [(k, s, steps) for k in KINDS for s in seeds]
    if how == 'direct':
        vals = [solo(*t) for t in tasks]
    elif how in ('fork', 'spawn'):
        ctx = multiprocessing.get_context(how)
        with ctx.Pool(2) as pool:
            vals = pool.map(_mp_solo, tasks)
    elif how in ('batch1', 'batch2'):
        vals = []
        for k in KINDS:
            # the kinds take turns with the model classes: positional seed, free keyword options, keyword-only seed
            cls = (SModel, OptModel, KwOnlyModel)[KINDS.index(k) % 3]
            res = Batching.batch_run(cls, {'kind': k, 'seed': list(seeds)}, collectors=['trace', 'AgentCollector'],
                                     processes=1 if how == 'batch1' else 2, max_timesteps=steps)
            by_seed = {}
            for r in res:
                # identify the run by recomputing nothing: the digest is over records + final clock
                blob = repr((r['trace'], r['AgentCollector'], steps))
                by_seed.setdefault(hashlib.sha1(blob.encode()).hexdigest(), 0)
            vals.append(sorted(by_seed))
        return {'batch': vals}
    else:
        raise ValueError(how)
    return {f'{k}:{s}': v for (k, s, _), v in zip(tasks, vals)}


def run_child(hashseed, how, seeds, steps):
    tree = os.path.dirname(os.path.dirname(os.path.abspath(Core.__file__)))
    verif = os.path.dirname(os.path.dirname(os.path.dirname(os.path.abspath(__file__))))
    env = dict(os.environ)
    env['PYTHONHASHSEED'] = str(hashseed)
    r = subprocess.run([sys.executable, '-c', CHILD, tree, verif, how, json.dumps(seeds), str(steps)],
                       capture_output=True, text=True, env=env, timeout=600)
    if r.returncode != 0:
        raise Violation(f'child process (PYTHONHASHSEED={hashseed}, {how}) failed',
                        observed=(r.stderr.strip().splitlines() or [''])[-1])
    return json.loads(r.stdout.strip().splitlines()[-1])


def matrix_case(case):
    seeds, steps = case['seeds'], case['steps']
    ref = solo_table(KINDS, seeds, steps)          # this process: PYTHONHASHSEED=0, in-process
    got = run_child(case['hashseed'], case['how'], seeds, steps)
    if 'batch' in got:
        for k, digs in zip(KINDS, got['batch']):
            want = sorted({solo_nofinish(k, s, steps) for s in seeds})      # batch_run has no post-run step
            if digs != want:
                raise Violation(f'trajectories of {k} models run by batch_run ({case["how"]}) under PYTHONHASHSEED='
                                f'{case["hashseed"]} differ from the solo trajectories', expected=want, observed=digs)
    else:
        bad = sorted(k for k, want in ref.items() if got.get(k) != want)
        if bad:
            # the message names the cell of the matrix only: WHICH models differ may itself vary from run to run when
            # the code under test draws from an unseeded source, and a replay must reproduce the same message
            raise Violation(f'same seed, different trajectory under PYTHONHASHSEED={case["hashseed"]} / {case["how"]}',
                            expected={k: ref[k] for k in bad}, observed={k: got.get(k) for k in bad})
    return (case['hashseed'], case['how'])


def matrix_fn(ctx, case):
    ctx.traces += 1
    ctx.states += 1
    ctx.transitions += len(KINDS) * len(case['seeds'])
    try:
        ctx.outcome(hbfs._guard(matrix_case, case))
    except Violation as v:
        ctx.report(case, v)


def matrix_cases(tier, seed):
    seeds = [seed * 1000 + 1, seed * 1000 + 2, f'run-{seed}', 2.5 + seed, 0]      # int, str and float seeds
    steps = 4
    hs_all = [0, 1, 4242, 'random']
    hows = ['direct', 'fork', 'spawn', 'batch1', 'batch2']
    if tier == 'quick':
        cells = [(h, 'direct') for h in hs_all] + [(0, w) for w in hows[1:]] + [(4242, 'batch2'), (1, 'spawn')]
    else:
        cells = [(h, w) for h in hs_all for w in hows]
    return [{'leg': 'matrix', 'hashseed': h, 'how': w, 'seeds': seeds, 'steps': steps} for h, w in cells]


def run(ctx):
    # vacuity guards: different seeds / kinds must give different trajectories, a seed must reproduce itself
    a, b = solo('plain', ctx.seed * 1000 + 1, 3), solo('plain', ctx.seed * 1000 + 2, 3)
    if a == b:
        raise hbfs.HarnessError('scripted models are not seed-sensitive')
    for kind in KINDS + ['crowd', 'crowd_big']:
        case = {'leg': 'repeat', 'kind': kind, 'seed': ctx.seed * 1000 + 1, 'steps': 3 if not kind.startswith('crowd') else 1}
        ctx.traces += 2
        try:
            hbfs._guard(repeat_case, case)
        except Violation as v:
            ctx.report(case, v)
    # seeds that are not ints (random.Random takes str and float seeds too)
    for kind, sd in (('plain', f'run-{ctx.seed}'), ('grid', 2.5 + ctx.seed), ('swap', f'experiment {ctx.seed}')):
        case = {'leg': 'repeat', 'kind': kind, 'seed': sd, 'steps': 3}
        ctx.traces += 2
        try:
            hbfs._guard(repeat_case, case)
        except Violation as v:
            ctx.report(case, v)
    # seeds that are falsy (0, 0.0, '', False) are seeds like any other: "all seeds" includes the one most often used
    for kind, sd in (('plain', 0), ('grid', 0), ('self_seeded', 0), ('space', 0.0), ('plain', ''), ('swap', False)):
        case = {'leg': 'repeat', 'kind': kind, 'seed': sd, 'steps': 3}
        ctx.traces += 2
        try:
            hbfs._guard(repeat_case, case)
        except Violation as v:
            ctx.report(case, v)
    for kind in ('plain', 'grid', 'late_seed', 'self_seeded'):
        case = {'leg': 'fork', 'kind': kind, 'seed': ctx.seed * 1000 + 1, 'steps': 3}
        ctx.traces += 2
        try:
            hbfs._guard(fork_case, case)
        except Violation as v:
            ctx.report(case, v)
    for n in (10, 70, 300):
        case = {'leg': 'import_state', 'n': n, 'seed': ctx.seed * 1000 + 1}
        ctx.traces += 3
        try:
            hbfs._guard(import_state_case, case)
        except Violation as v:
            ctx.report(case, v)
    case = {'leg': 'huge_population', 'n': 100001, 'seed': ctx.seed * 1000 + 1}
    ctx.traces += 2
    try:
        ctx.outcome(('huge', hbfs._guard(huge_population_case, case)))
    except Violation as v:
        ctx.report(case, v)
    for kind in ('plain', 'grid'):
        case = {'leg': 'mutable_seed', 'kind': kind, 'seed': f'buffer-{ctx.seed}', 'steps': 3}
        ctx.traces += 2
        try:
            hbfs._guard(mutable_seed_case, case)
        except Violation as v:
            ctx.report(case, v)
    if ctx.violations:
        return
    cases = list(interleaving_cases(ctx.tier, ctx.seed))
    size = max(1, len(cases) // (ctx.procs * 4))
    par.pmap(ctx, chunk_fn, [cases[i:i + size] for i in range(0, len(cases), size)], procs=ctx.procs)
    ctx.leg('interleave', interleavings=len(cases))
    ctx.sample(cases[len(cases) // 2])
    if ctx.violations:
        return
    mc = matrix_cases(ctx.tier, ctx.seed)
    par.pmap(ctx, matrix_fn, mc, procs=min(ctx.procs, 8))
    ctx.leg('process_matrix', cells=len(mc))
    ctx.sample(mc[-1])


IMPORT_CHILD = r'''
import sys
sys.path.insert(0, sys.argv[1])
if sys.argv[2] == 'numpy_first':
    import numpy
elif sys.argv[2] == 'environments_first':
    import ECAgent.Environments
import ECAgent.Core as Core
class W(Core.Component):
    pass
m = Core.Model(seed=int(sys.argv[3]))
for i in range(int(sys.argv[4])):
    a = Core.Agent('a%d' % i, m, tag=i % 2)
    if i % 5:
        a.add_component(W(a, m))
    m.environment.add_agent(a)
out = []
for _ in range(3):
    out.append([a.id for a in m.environment.shuffle()][:12])
    out.append([a.id for a in m.environment.shuffle(W)][:12])
    out.append([a.id for a in m.environment.shuffle(tag=1)][:12])
    out.append(m.environment.get_random_agent(W).id)
    out.append(m.environment.get_random_agent().id)
print('TRAJ ' + repr(out))
'''


_FORK_HOLD = {}


def _fork_child(conn, steps):
    m = _FORK_HOLD['m']
    for _ in range(steps):
        m.execute()
    finish(m)
    conn.send(digest_of(m))
    conn.close()


def fork_case(case):
    """A model is built in this process and stepped in a forked child (a worker that inherits a prepared model): its
    trajectory is the one the same seed gives here."""
    want = solo(case['kind'], case['seed'], case['steps'])
    reset_library()
    _FORK_HOLD['m'] = SModel(case['kind'], case['seed'])
    mp = multiprocessing.get_context('fork')
    recv, send = mp.Pipe(False)
    p = mp.Process(target=_fork_child, args=(send, case['steps']))
    p.start()
    got = recv.recv() if recv.poll(120) else None
    p.join(10)
    _FORK_HOLD.clear()
    if got != want:
        raise Violation(f'a {case["kind"]} model with seed {case["seed"]} built here and stepped in a forked child took another '
                        f'trajectory than the same model stepped here', expected=want, observed=got)
    return 1


def import_state_case(case):
    """The same model code and seed in three fresh interpreters that differ only in what else has been imported (nothing,
    numpy, the library's Environments module): one trajectory."""
    tree = os.path.dirname(os.path.dirname(os.path.abspath(Core.__file__)))
    outs = {}
    for how in ('bare', 'numpy_first', 'environments_first'):
        r = subprocess.run([sys.executable, '-c', IMPORT_CHILD, tree, how, str(case['seed']), str(case['n'])],
                           capture_output=True, text=True, env=dict(os.environ, PYTHONHASHSEED='0'), timeout=300)
        line = next((ln for ln in r.stdout.splitlines() if ln.startswith('TRAJ ')), None)
        if line is None:
            raise Violation(f'child interpreter ({how}) failed', observed=(r.stderr.strip().splitlines() or [''])[-1])
        outs[how] = line
    if len(set(outs.values())) != 1:
        other = next(h for h in outs if outs[h] != outs['bare'])
        raise Violation(f'a model of {case["n"]} agents with seed {case["seed"]} gives another trajectory in an interpreter '
                        f'that imported {other.split("_")[0]} before the model ran', expected=outs['bare'][:160],
                        observed=outs[other][:160])
    return 3


REPEAT_CHILD = r'''
import json, sys
sys.path.insert(0, sys.argv[1]); sys.path.insert(0, sys.argv[2])
import mc.props.c07 as c07
junk = [object() for _ in range(int(sys.argv[6]))]      # another allocation history before anything runs
print(json.dumps(c07.repeat_in_process(sys.argv[3], json.loads(sys.argv[4]), int(sys.argv[5]))))
'''


def repeat_in_process(kind, seed, steps):
    """The same model code with the same seed, run twice in this process with ambient draws and other models built,
    stepped and discarded in between (different heap layout for the second run)."""
    first = solo(kind, seed, steps)
    random.random()
    np.random.rand()
    junk = [SModel('grid', 500 + i, n=3) for i in range(4)]
    for j in junk:
        for k in range(6):
            j.systems.add_system(Boot(f'extra{k}', j, priority=k % 3))
        j.execute()
    keep = junk[1::2]
    del junk
    second = solo(kind, seed, steps)
    del keep
    return [first, second]


def huge_population_case(case):
    """A population beyond any size threshold (100 001 agents): a shuffle and a series of picks with the same seed are
    the same whatever the ambient generators (random, numpy.random) hold."""
    n = case['n']

    def run(perturb_seed):
        reset_library()
        random.seed(perturb_seed)
        np.random.seed(perturb_seed % 1000)
        m = Core.Model(seed=case['seed'])
        env = m.environment
        for i in range(n):
            a = Core.Agent(f'h{i}', m, tag=i % 2)
            if i % 500 == 0:      # (registering a component scans its pool: a few hundred carriers keep this linear)
                a.add_component(Wealth(a, m, i))
            env.add_agent(a)
        random.random()
        np.random.rand(2)
        order = env.shuffle()
        picks = [env.get_random_agent().id for _ in range(20)]
        rich = env.shuffle(Wealth)
        tagged = env.shuffle(tag=1)
        blob = repr(([a.id for a in order], picks, [a.id for a in rich], [a.id for a in tagged], m.random.random()))
        return hashlib.sha1(blob.encode()).hexdigest(), len(order), len(rich)
    a, b = run(11), run(987)
    if a != b:
        raise Violation(f'a model of {n} agents seeded with {case["seed"]} shuffles / picks differently when the ambient '
                        f'random and numpy.random generators were seeded differently', expected=a, observed=b)
    if a[1] != n or a[2] != (n + 499) // 500:
        raise Violation('shuffle of the huge population is not a permutation of it', observed=a)
    return a[0]


def mutable_seed_case(case):
    """A bytes-like seed held in a buffer the caller reuses: the model is seeded with the buffer's contents at
    construction, whatever the caller writes into the buffer afterwards."""
    reset_library()
    kind, steps = case['kind'], case['steps']
    pristine = SModel(kind, bytearray(case['seed'].encode()))
    for _ in range(steps):
        pristine.execute()
    finish(pristine)
    want = digest_of(pristine)
    reset_library()
    buf = bytearray(case['seed'].encode())
    m = SModel(kind, buf)
    buf[:] = b'x' * len(buf)            # the caller prepares the next run's seed in the same buffer
    other = SModel(kind, buf)           # ... and builds that run's model before stepping the first
    for _ in range(steps):
        m.execute()
    finish(m)
    if digest_of(m) != want:
        raise Violation(f'the {kind} model seeded from a bytearray took another trajectory because the caller reused the '
                        f'buffer after constructing the model', expected=want, observed=digest_of(m))
    del other
    return want


def repeat_case(case):
    # run in fresh interpreters: what the second run sees (heap layout, global generator state) is then the same
    # every time this case is executed, so a violation replays identically.  Two interpreters with different
    # allocation histories (the second one starts by allocating 50 000 objects) must agree as well.
    tree = os.path.dirname(os.path.dirname(os.path.abspath(Core.__file__)))
    verif = os.path.dirname(os.path.dirname(os.path.dirname(os.path.abspath(__file__))))
    env = dict(os.environ, PYTHONHASHSEED='0')
    firsts = []
    for prealloc in (0, 50000):
        r = subprocess.run([sys.executable, '-c', REPEAT_CHILD, tree, verif, case['kind'], json.dumps(case['seed']),
                            str(case['steps']), str(prealloc)], capture_output=True, text=True, env=env, timeout=600)
        if r.returncode != 0:
            raise Violation('child process of the repeat leg failed', observed=(r.stderr.strip().splitlines() or [''])[-1])
        first, second = json.loads(r.stdout.strip().splitlines()[-1])
        if first != second:
            raise Violation(f'two runs of the {case["kind"]} model with seed {case["seed"]} in one process gave different '
                            f'trajectories', expected=first, observed=second)
        firsts.append(first)
    if firsts[0] != firsts[1]:
        raise Violation(f'the {case["kind"]} model with seed {case["seed"]} gave another trajectory in a fresh interpreter '
                        f'with a different allocation history', expected=firsts[0], observed=firsts[1])


def replay(case):
    if case['leg'] == 'import_state':
        hbfs._guard(import_state_case, case)
        return
    if case['leg'] == 'fork':
        hbfs._guard(fork_case, case)
        return
    if case['leg'] == 'huge_population':
        hbfs._guard(huge_population_case, case)
        return
    if case['leg'] == 'mutable_seed':
        hbfs._guard(mutable_seed_case, case)
        return
    if case['leg'] == 'repeat':
        hbfs._guard(repeat_case, case)
        return
    if case['leg'] == 'matrix':
        hbfs._guard(matrix_case, case)
        return
    got = hbfs._guard(run_interleaving, case)
    for i, (kind, seed) in enumerate(case['models']):
        want = solo(kind, seed, case['steps'])
        if got[i] != want:
            raise Violation(f'model {i} ({kind}, seed {seed}) took a different trajectory when its steps were '
                            f'interleaved as {case["order"]} (A,B,C = models; P,Q = perturbations of '
                            f'random / numpy.random / an unrelated model)', expected=want, observed=got[i])
