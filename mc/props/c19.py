"""C19 - tag libraries keep a stable name<->id bijection and cannot be corrupted.

E1 history BFS over add_tag(name) on a target library (a local library or the module-level one), with two
bystander libraries holding tags of their own.  Every module-level history runs on a fresh module instance; all
module-level histories up to depth 2 additionally run in a real fresh interpreter (child process) and must give
the same observations.
"""
import copy
import importlib.util
import json
import os
import subprocess
import sys

from mc.engine import hbfs, par
from mc.engine.report import Violation

import ECAgent

TAGS_PATH = os.path.join(os.path.dirname(os.path.abspath(ECAgent.__file__)), 'Tags.py')

NAMES = ['A', 'B', 'NONE', '_tag_counter', '_tag_names', 'add_tag', 'get_tag_name', 'itemize', '__len__',
         '__class__', '__dict__', '__init__', '', 'a b', '1x', 'C']
# names given as strings that are not plain str objects: a numpy string scalar, an instance of a str subclass
TYPED_NAMES = ['np:itemize', 'sub:add_tag', 'np:D', 'sub:get_tag_name', 'np:__len__']
MODULE_NAMES = ['TagLibrary', '_module_library', '__getattr__', 'DuplicateTagError', '__name__']
ORDINARY = {'A', 'B', 'C'}
PROBE = 'ZZ_probe'
UNKNOWN = 'ZZ_unknown'

META = {
    'rule': 'BFS over add_tag histories on a target library with bystander libraries; full read-back of every '
            'library after every operation; distinct_nontrivial counts distinct (accepted names, last outcome) pairs',
    'alphabet': {'names': NAMES, 'extra names on the module-level library': MODULE_NAMES,
                 'targets': ['local library L1', 'module-level library G'],
                 'bystanders': 'L2 preloaded with Q, A; the other of L1/G preloaded with Q (and B)',
                 'id lookups': '-1 .. len+3, also as numpy int64 / uint8 scalars',
                 'blind leg': 'every attribute name the library or its class shows after use, every builtin identifier used in '
                              'Tags.py and every module global, added to a pristine library before anything was read', 'churn': '12 sequences of 40 short-lived libraries with 1..3 tags each, same / different '
                 'names, read back after every add or only at the end', 'name lookups': 'every alphabet name, NONE, an unknown name'},
    'bounds': {'quick': 'depth 3 per target; fresh-interpreter leg: all module-level histories of depth <= 1',
               'thorough': 'depth 4 per target; fresh-interpreter leg: depth <= 2'},
    'assumptions': ['names outside {A,B,C} may be accepted or rejected; either way the oracle applies in full',
                    'add_tag operability is probed on a deep copy of the library in every state'],
}


class StrSub(str):
    pass


def decode_name(name):
    if name.startswith('np:'):
        import numpy as np
        return np.str_(name[3:])
    if name.startswith('sub:'):
        return StrSub(name[4:])
    return name


def plain(name):
    return name.split(':', 1)[1] if name[:3] == 'np:' or name[:4] == 'sub:' else name


def load_module():
    spec = importlib.util.spec_from_file_location('ECAgent_Tags_under_test', TAGS_PATH)
    mod = importlib.util.module_from_spec(spec)
    spec.loader.exec_module(mod)
    return mod


def _try(fn):
    try:
        return fn()
    except BaseException as e:     # noqa - the observation records whatever happens
        return f'EXC:{type(e).__name__}'


def observe_lib(lib, names, is_module, mod=None):
    """Everything observable about one library, as plain data (also produced by the child process)."""
    if is_module:
        # the module-level library is read through the public module functions only; the instance behind them is
        # looked up (for the copy-probe) without assuming how the module stores it
        n = _try(lambda: len(mod.itemize()))
        getname = mod.get_tag_name
        itemize = mod.itemize
        look = lambda name: getattr(mod, name)          # noqa
        inner = next((v for v in vars(mod).values() if isinstance(v, mod.TagLibrary)), None)
    else:
        n = _try(lambda: len(lib))
        getname = lambda i: lib.get_tag_name(i)         # noqa
        itemize = lambda: lib.itemize()                 # noqa
        look = lambda name: getattr(lib, name)          # noqa
        inner = lib
    obs = {'len': n}
    items = _try(itemize)
    obs['itemize'] = [list(t) for t in items] if isinstance(items, list) else items
    if isinstance(items, list):
        # the list belongs to the caller: whatever is done to it, the next listing is the same again
        items.reverse()
        items.append(('junk', -1))
        del items[:2]
        again = _try(itemize)
        obs['itemize_again'] = [list(t) for t in again] if isinstance(again, list) else again
    top = n if isinstance(n, int) else 8
    obs['by_id'] = {str(i): _try(lambda i=i: getname(i)) for i in range(-1, top + 4)}
    # the same ids as numpy integer scalars (an id taken from an array or a data frame column)
    import numpy as np
    obs['by_npid'] = {str(i): _try(lambda i=i: getname(np.int64(i))) for i in range(0, top + 2)}
    obs['by_npid'].update({f'u{i}': _try(lambda i=i: getname(np.uint8(i))) for i in range(0, min(top, 3))})
    by_name = {}
    for name in names:
        v = _try(lambda name=name: look(name))
        # ints (tag ids) and exceptions are kept; any other object the module / library answers with (methods,
        # classes, the module's __name__ ...) is not a tag and is recorded by kind only
        if isinstance(v, int) and not isinstance(v, bool):
            by_name[name] = v
        elif isinstance(v, str) and v.startswith('EXC:'):
            by_name[name] = v
        else:
            by_name[name] = f'OBJ:{type(v).__name__}'
    obs['by_name'] = by_name

    def probe():
        if inner is None:
            return 'no-instance'
        c = copy.deepcopy(inner)
        c.add_tag(PROBE)
        return [getattr(c, PROBE), c.get_tag_name(len(c) - 1), len(c)]
    obs['probe'] = _try(probe)
    return obs


def judge(obs, acc, is_module, who):
    """acc: accepted names in acceptance order.  Raises Violation if the observation departs from the bijection."""
    n = len(acc) + 1
    if obs['len'] != n:
        raise Violation(f'{who}: len is {obs["len"]}', expected=n, observed=obs['len'])
    want_items = [['NONE', 0]] + [[a, i + 1] for i, a in enumerate(acc)]
    if obs['itemize'] != want_items:
        raise Violation(f'{who}: itemize() differs from the id-ordered tag list', expected=want_items,
                        observed=obs['itemize'])
    if obs.get('itemize_again', want_items) != want_items:
        raise Violation(f'{who}: itemize() after the caller modified the list it got from the previous call',
                        expected=want_items, observed=obs['itemize_again'])
    for i in range(-1, n + 4):
        got = obs['by_id'].get(str(i))
        want = (['NONE'] + acc)[i] if 0 <= i < n else 'EXC:TagNotFoundError'
        if got != want:
            raise Violation(f'{who}: get_tag_name({i})', expected=want, observed=got)
    for key, got in obs.get('by_npid', {}).items():
        i = int(key.lstrip('u'))
        want = (['NONE'] + acc)[i] if 0 <= i < n else 'EXC:TagNotFoundError'
        if got != want:
            raise Violation(f'{who}: get_tag_name({i} as a numpy integer)', expected=want, observed=got)
    for name, got in obs['by_name'].items():
        if name == 'NONE':
            want = 0
        elif name in acc:
            want = acc.index(name) + 1
        elif name == UNKNOWN or (name in ORDINARY):
            if is_module:
                if got != 'EXC:TagNotFoundError':
                    raise Violation(f'{who}: unknown module-level name {name!r}', expected='EXC:TagNotFoundError',
                                    observed=got)
            elif not (isinstance(got, str) and got.startswith('EXC:')):
                raise Violation(f'{who}: unknown library attribute {name!r} did not raise', observed=got)
            continue
        else:
            continue        # a name that is not a tag: whatever the object model answers is not our business
        if got != want:
            raise Violation(f'{who}: lookup of tag {name!r} by name', expected=want, observed=got)
    if obs['probe'] != [n, PROBE, n + 1] and obs['probe'] != 'no-instance':
        raise Violation(f'{who}: the library\'s own operations no longer work (probe add_tag on a copy)',
                        expected=[n, PROBE, n + 1], observed=obs['probe'])


class World:
    pass


class Harness:
    def __init__(self, target, names):
        self.target = target
        self.names = list(names)
        self.config = {'target': target, 'names': self.names}
        self.look = sorted(set([plain(n) for n in self.names] + ['NONE', UNKNOWN, 'Q', 'A', 'B', 'C']))

    def fresh(self):
        w = World()
        w.mod = load_module()
        w.L1 = w.mod.TagLibrary()
        w.L2 = w.mod.TagLibrary()
        w.acc = {'L1': [], 'L2': [], 'G': []}
        for n in ('Q', 'A'):
            w.L2.add_tag(n)
            w.acc['L2'].append(n)
        if self.target == 'L1':
            w.mod.add_tag('Q')
            w.acc['G'].append('Q')
        else:
            for n in ('Q', 'B'):
                w.L1.add_tag(n)
                w.acc['L1'].append(n)
        w.last = None
        return w

    def ops(self, w):
        return [['add', n] for n in self.names]

    def observe_all(self, w):
        return {'L1': observe_lib(w.L1, self.look, False), 'L2': observe_lib(w.L2, self.look, False),
                'G': observe_lib(None, self.look, True, w.mod)}

    def apply(self, w, op):
        arg = decode_name(op[1])
        name = plain(op[1])
        before = self.observe_all(w)
        acc = w.acc[self.target]
        try:
            if self.target == 'G':
                w.mod.add_tag(arg)
            else:
                w.L1.add_tag(arg)
            raised = None
        except Exception as e:          # noqa - any exception is a rejection; what matters is what it leaves behind
            raised = e
        if raised is None:
            if name in acc or name == 'NONE':
                raise Violation(f'duplicate tag {name!r} accepted', expected='DuplicateTagError', observed='accepted')
            acc.append(name)
            w.last = ('accepted', name)
        else:
            if name in ORDINARY | {'D'} and name not in acc:
                raise Violation(f'ordinary new tag name {name!r} rejected with {type(raised).__name__}',
                                expected='accepted')
            if (name in acc or name == 'NONE') and type(raised).__name__ != 'DuplicateTagError':
                raise Violation(f'duplicate tag {name!r} rejected with {type(raised).__name__}',
                                expected='DuplicateTagError', observed=type(raised).__name__)
            after = self.observe_all(w)
            if after != before:
                raise Violation(f'rejected add_tag({name!r}) ({type(raised).__name__}) changed a library',
                                expected=_first_diff(before, after)[0], observed=_first_diff(before, after)[1])
            w.last = ('rejected', name, type(raised).__name__)

    def check(self, w):
        obs = self.observe_all(w)
        for who in ('L1', 'L2', 'G'):
            judge(obs[who], w.acc[who], who == 'G', f'{who} (target {self.target})')

    def canon(self, w):
        return (tuple(w.acc[self.target]), json.dumps(self.observe_all(w), sort_keys=True))

    def refstate(self, w):
        return tuple((k, tuple(v)) for k, v in sorted(w.acc.items()))

    def outcome(self, w):
        return (tuple(w.acc[self.target]), w.last)


def _first_diff(a, b):
    for who in a:
        for k in a[who]:
            if a[who][k] != b[who][k]:
                return {who: {k: a[who][k]}}, {who: {k: b[who][k]}}
    return None, None


# ---------------------------------------------------------------------------------------------------------
# blind leg: names taken from the library itself, added BEFORE anything was read
# ---------------------------------------------------------------------------------------------------------

def discovered_names():
    """Every attribute name a library object or its class ever shows after all its operations have been used once
    (lazily created caches included), every identifier of Tags.py that is a builtin, and the module's globals."""
    import builtins
    import re
    mod = load_module()
    lib = mod.TagLibrary()
    before = set(vars(lib))
    lib.add_tag('A')
    lib.itemize()
    len(lib)
    lib.get_tag_name(1)
    getattr(lib, 'A')
    names = set(vars(lib)) | set(dir(lib)) | before
    # ... and after the library has grown (caches that only appear beyond some size) and been read again
    big = mod.TagLibrary()
    for i in range(300):
        try:                      # (only names are collected here: what goes wrong is judged by the legs, not by this helper)
            big.add_tag(f'G{i}')
            if i in (10, 40, 70, 299):
                big.itemize()
                big.get_tag_name(i)
                len(big)
        except Exception:         # noqa
            pass
    names |= {n for n in set(vars(big)) | set(dir(big)) if not (n.startswith('G') and n[1:].isdigit())}
    with open(TAGS_PATH) as f:
        idents = set(re.findall(r'[A-Za-z_][A-Za-z0-9_]*', f.read()))
    names |= {i for i in idents if hasattr(builtins, i)}
    names |= {n for n in vars(mod) if not n.startswith('__')}
    names.discard('A')
    return sorted(names)


def blind_case(case):
    """The name is added to a pristine library (nothing read before); then another tag; then the full read-back."""
    mod = load_module()
    name, target = case['name'], case['target']
    look = sorted({name, 'NONE', UNKNOWN, 'B2'})
    L1 = mod.TagLibrary()
    L2 = mod.TagLibrary()
    add = mod.add_tag if target == 'G' else L1.add_tag
    acc = []
    try:
        add(name)
        acc.append(name)
    except Exception:           # noqa - rejected: judged by what it leaves behind
        pass
    if case['read_between']:
        (mod.itemize if target == 'G' else L1.itemize)()
    add('B2')
    acc.append('B2')
    for i in range(case.get('grow', 0)):          # the library grows on (thresholds, caches that appear at some size)
        add(f'W{i}')
        acc.append(f'W{i}')
        if i % 16 == 3:
            (mod.itemize if target == 'G' else L1.itemize)()
    obs = {'L1': observe_lib(L1, look, False), 'L2': observe_lib(L2, look, False), 'G': observe_lib(None, look, True, mod)}
    judge(obs['L1'], acc if target == 'L1' else [], False, f'L1 after blind add of {name!r} to {target}')
    judge(obs['L2'], [], False, f'bystander library after blind add of {name!r} to {target}')
    judge(obs['G'], acc if target == 'G' else [], True, f'module-level library after blind add of {name!r} to {target}')
    return (name, target, len(acc))


# ---------------------------------------------------------------------------------------------------------
# wild names: strings that are perfectly good dictionary keys but awkward as identifiers / in message templates
# ---------------------------------------------------------------------------------------------------------

WILD = [
    ('\u00b5', '\u03bc'),                 # MICRO SIGN and GREEK MU: different strings, equal after NFKC normalisation
    ('\ufb01x', 'fix'),                    # a ligature and its expansion
    ('\uff41\uff42', 'ab'),                # fullwidth letters and their ASCII twins
    ('e\u0301', '\u00e9'),                 # decomposed and precomposed accent (NFC-equal)
    ('{', '}'), ('{}', '{0}'), ('a}b', '{key}'), ('group{0}', '{0!r:>{1}}'),
    ('%s', '%(name)s'), ('%d%%', '100%'),
    ('a\nb', 'a\tb'), ("it's", 'say "x"'), ('back\\slash', 'dollar$name'), (' lead', 'trail '),
    ('class', 'lambda'), ('x' * 300, 'x' * 301), ('__wolf__', '__w__'), ('____', '__all__'), ('__path__', '__file_'), ('\U0001f600', '\u4e2d\u6587'), ('a.b', 'a-b'), ('a[0]', 'a(0)'),
]


def wild_case(case):
    """Both names of the pair are added to the target (library or module level), each twice; everything is read back."""
    mod = load_module()
    first, second = case['pair']
    target = case['target']
    lib = mod.TagLibrary()
    other = mod.TagLibrary()
    add = mod.add_tag if target == 'G' else lib.add_tag
    acc = []
    for name in (first, second):
        try:
            add(name)
        except Exception as e:      # noqa - a refusal is judged by what it leaves behind (the read-back below)
            if type(e).__name__ == 'DuplicateTagError':
                raise Violation(f'new tag name {name!r} was rejected as a duplicate (names added so far: {acc!r})',
                                expected='accepted: it differs from every name added before', observed=str(e)[:200])
            continue
        acc.append(name)
        try:
            add(name)
        except Exception as e:      # noqa
            if type(e).__name__ != 'DuplicateTagError':
                raise Violation(f'adding {name!r} a second time raised {type(e).__name__} instead of DuplicateTagError',
                                expected='DuplicateTagError', observed=f'{type(e).__name__}: {e}'[:200])
        else:
            raise Violation(f'duplicate tag {name!r} accepted', expected='DuplicateTagError', observed='accepted')
    look = sorted({first, second, 'NONE'})
    obs = {'T': observe_lib(None, look, True, mod) if target == 'G' else observe_lib(lib, look, False),
           'O': observe_lib(other, look, False)}
    judge(obs['T'], acc, target == 'G', f'{target} after adding {first!r} and {second!r}')
    judge(obs['O'], [], False, f'bystander library after adding {first!r} and {second!r} to {target}')
    # a name that was never added, looked up by name at module level: the documented error, whatever the name holds
    for unknown in (first + '?', second + '{', '{' + first):
        try:
            getattr(mod, unknown)
        except Exception as e:      # noqa
            if type(e).__name__ != 'TagNotFoundError':
                raise Violation(f'module-level lookup of the unknown name {unknown!r} raised {type(e).__name__} instead of '
                                f'TagNotFoundError', expected='TagNotFoundError', observed=f'{type(e).__name__}: {e}'[:200])
        else:
            raise Violation(f'module-level lookup of the unknown name {unknown!r} did not raise')
    for bad_id in (len(acc) + 1, -1, 10 ** 6):
        try:
            (mod.get_tag_name if target == 'G' else lib.get_tag_name)(bad_id)
        except Exception as e:      # noqa
            if type(e).__name__ != 'TagNotFoundError':
                raise Violation(f'get_tag_name({bad_id}) raised {type(e).__name__}', expected='TagNotFoundError')
        else:
            raise Violation(f'get_tag_name({bad_id}) of an unknown id did not raise')
    return (target, len(acc))


def many_tags_case(case):
    """Thousands of tags on one library / at module level: ids are 1..n in order of addition, every name finds its id
    and every id its name; a duplicate among them is still refused."""
    mod = load_module()
    n, target = case['n'], case['target']
    lib = mod.TagLibrary()
    add = mod.add_tag if target == 'G' else lib.add_tag
    names = [f'T{(i * 7919) % n:05d}' for i in range(n)]
    for nm in names:
        add(nm)
    look = (lambda nm: getattr(mod, nm)) if target == 'G' else (lambda nm: getattr(lib, nm))
    getname = mod.get_tag_name if target == 'G' else lib.get_tag_name
    items = mod.itemize() if target == 'G' else lib.itemize()
    if [list(t) for t in items] != [['NONE', 0]] + [[nm, i + 1] for i, nm in enumerate(names)]:
        raise Violation(f'{n} tags at {target}: itemize() differs from the id-ordered tag list')
    for i in list(range(0, n, 53)) + [n - 2, n - 1]:
        if look(names[i]) != i + 1 or getname(i + 1) != names[i]:
            raise Violation(f'{n} tags at {target}: tag {names[i]!r} / id {i + 1} do not map to each other',
                            expected=[i + 1, names[i]], observed=[look(names[i]), getname(i + 1)])
    for nm in (names[0], names[n // 2], names[-1]):
        try:
            add(nm)
        except Exception as e:      # noqa
            if type(e).__name__ != 'DuplicateTagError':
                raise Violation(f'{n} tags: duplicate {nm!r} raised {type(e).__name__}')
        else:
            raise Violation(f'{n} tags at {target}: duplicate {nm!r} accepted')
    if target != 'G' and len(lib) != n + 1:
        raise Violation(f'{n} tags: len', expected=n + 1, observed=len(lib))
    return n


def subclass_case(case):
    """A library that is an instance of a TagLibrary SUBCLASS with a method and a class attribute of its own: a tag named
    like one of them is either refused without a trace, or accepted without breaking the subclass's own operations -
    and everything else about the library holds as usual."""
    mod = load_module()

    class Guild(mod.TagLibrary):
        kind = 'guild'

        def predators(self):
            return ['wolf']

    lib = Guild()
    plain = mod.TagLibrary()
    plain_acc = []

    def offer_plain():
        # the same names offered to a plain library in the same process: for it they are ordinary new names
        for name in case['names']:
            if name in ('itemize',):
                continue
            try:
                plain.add_tag(name)
            except Exception as e:      # noqa
                raise Violation(f'a plain TagLibrary refused the ordinary name {name!r} ({type(e).__name__}) '
                                f'{"after" if case.get("order") == "sub_first" else "before"} it was offered to a subclass '
                                f'library that has a method of that name', expected='accepted')
            plain_acc.append(name)
    if case.get('order') == 'plain_first':
        offer_plain()
    acc = []
    for name in case['names']:
        try:
            lib.add_tag(name)
        except Exception:      # noqa - refused: judged by the read-back
            continue
        acc.append(name)
    ok_own = True
    try:
        ok_own = Guild.predators(lib) == ['wolf'] and lib.predators() == ['wolf'] and lib.kind == 'guild'
    except Exception:      # noqa
        ok_own = False
    if not ok_own:
        raise Violation(f'after add_tag of {case["names"]} (accepted: {acc}) on a TagLibrary subclass its own method / '
                        f'attribute no longer works: a tag shadows it', expected='refused, or harmless', observed=acc)
    if case.get('order') == 'sub_first':
        offer_plain()
    look = sorted(set(case['names']) | {'NONE', UNKNOWN})
    judge(observe_lib(lib, look, False), acc, False, f'subclass library after add_tag of {case["names"]}')
    if case.get('order'):
        judge(observe_lib(plain, look, False), plain_acc, False, f'plain library next to a subclass library ({case["order"]})')
    return tuple(acc)


def wild_cases():
    for a, b in WILD:
        for target in ('L1', 'G'):
            yield {'leg': 'wild', 'pair': [a, b], 'target': target}
            yield {'leg': 'wild', 'pair': [b, a], 'target': target}


# ---------------------------------------------------------------------------------------------------------
# churn leg: many short-lived libraries (object addresses get reused)
# ---------------------------------------------------------------------------------------------------------

def churn_case(case):
    """Libraries are created, filled, read back in full and dropped, one after the other: nothing remembered about a
    dead library (by address, by count ...) may leak into a new one."""
    mod = load_module()
    look = ['NONE', UNKNOWN] + [f'T{i}_{j}' for i in range(3) for j in range(case['tags'])]
    n = 0
    for i in range(case['rounds']):
        lib = mod.TagLibrary()
        acc = []
        for j in range(case['tags']):
            name = f'T{i % 3}_{j}' if case['same_names'] else f'T{i}_{j}x'
            lib.add_tag(name)
            acc.append(name)
            if case['read_each']:
                _judge_churn(lib, look, acc, i)
                n += 1
        _judge_churn(lib, look, acc, i)
        n += 1
        del lib
    return n


def _judge_churn(lib, look, acc, i):
    # which round fails depends on which object address gets reused, so the message does not name the round
    try:
        judge(observe_lib(lib, look + acc, False), acc, False, 'a short-lived library')
    except Violation as v:
        raise Violation(v.msg + ' (one of a sequence of libraries created and dropped one after the other)',
                        expected=v.expected, observed={'round': i, 'tags': acc, 'got': v.observed})


def churn_cases():
    for tags in (1, 2, 3):
        for same in (False, True):
            for read_each in (False, True):
                yield {'leg': 'churn', 'rounds': 40, 'tags': tags, 'same_names': same, 'read_each': read_each}


# ---------------------------------------------------------------------------------------------------------
# fresh-interpreter leg
# ---------------------------------------------------------------------------------------------------------

CHILD = r'''
import json, sys
sys.path.insert(0, sys.argv[1]); sys.path.insert(0, sys.argv[2])
import ECAgent.Tags as Tags
from mc.props.c19 import observe_lib
hist, look = json.loads(sys.argv[3]), json.loads(sys.argv[4])
results = []
for name in hist:
    try:
        Tags.add_tag(name); results.append(None)
    except Exception as e:
        results.append(type(e).__name__)
print(json.dumps({'results': results, 'obs': observe_lib(None, look, True, Tags)}))
'''


def child_case(case):
    hist = case['history']
    look = sorted(set(NAMES + MODULE_NAMES + ['NONE', UNKNOWN]))
    tree = os.path.dirname(os.path.dirname(TAGS_PATH))
    verif = os.path.dirname(os.path.dirname(os.path.dirname(os.path.abspath(__file__))))
    env = dict(os.environ, PYTHONHASHSEED='0')
    r = subprocess.run([sys.executable, '-c', CHILD, tree, verif, json.dumps(hist), json.dumps(look)],
                       capture_output=True, text=True, env=env, timeout=120)
    if r.returncode != 0:
        raise Violation(f'fresh interpreter running module-level history {hist} crashed',
                        observed=r.stderr.strip().splitlines()[-1:] or r.stdout[-200:])
    out = json.loads(r.stdout.strip().splitlines()[-1])
    acc = []
    for name, res in zip(hist, out['results']):
        if res is None:
            if name in acc or name == 'NONE':
                raise Violation(f'duplicate tag {name!r} accepted by the module-level library')
            acc.append(name)
        elif name in ORDINARY and name not in acc:
            raise Violation(f'ordinary name {name!r} rejected by the module-level library ({res})')
    judge(out['obs'], acc, True, f'module-level library in a fresh interpreter after {hist}')
    # differential: the same history on a fresh module instance inside this process
    mod = load_module()
    for name in hist:
        try:
            mod.add_tag(name)
        except Exception:
            pass
    here = observe_lib(None, look, True, mod)
    if here != out['obs']:
        raise Violation(f'history {hist}: fresh interpreter and fresh module instance disagree',
                        expected=_first_diff({'G': here}, {'G': out['obs']})[0],
                        observed=_first_diff({'G': here}, {'G': out['obs']})[1])
    return tuple(acc)


def child_chunk(ctx, chunk):
    for case in chunk:
        ctx.traces += 1
        ctx.transitions += len(case['history'])
        ctx.states += 1
        try:
            ctx.outcome(hbfs._guard(child_case, case))
        except Violation as v:
            ctx.report(case, v)
            if ctx.full():
                return


# the cheap legs run once more under the runner's ambient configurations (python -O, other logger levels)
AMBIENT_LEGS = True


def run(ctx):
    depth = 2 if ctx.small else 3 if ctx.tier == 'quick' else 4
    for target, names in (('L1', NAMES + TYPED_NAMES), ('G', NAMES + MODULE_NAMES + TYPED_NAMES[:2])):
        h = Harness(target, names)
        r = hbfs.explore(ctx, h, f'target_{target}', max_depth=depth, procs=ctx.procs)
        ctx.leg(f'target_{target}', **r)
        if ctx.violations:
            return
    ctx.caps.append(f'depth bound {depth} per target (all histories up to that depth covered)')
    blind = [{'leg': 'blind', 'name': n, 'target': t, 'read_between': rb} for n in discovered_names()
             for t in ('L1', 'G') for rb in (False, True)]
    blind += [{'leg': 'blind', 'name': n, 'target': t, 'read_between': False, 'grow': 40} for n in discovered_names()
              for t in ('L1', 'G') if n.startswith('_') or not n.isidentifier() or len(n) < 12]
    for case in blind:
        ctx.traces += 1
        ctx.states += 1
        ctx.transitions += 2
        try:
            ctx.outcome(hbfs._guard(blind_case, case))
        except Violation as v:
            ctx.report(case, v)
            return
    ctx.leg('blind', cases=len(blind), names=len(blind) // 4)
    nw = 0
    for case in wild_cases():
        ctx.traces += 1
        ctx.states += 1
        ctx.transitions += 4
        nw += 1
        try:
            ctx.outcome(('wild',) + tuple(case['pair']) + hbfs._guard(wild_case, case))
        except Violation as v:
            ctx.report(case, v)
            return
    ctx.leg('wild_names', cases=nw, pairs=len(WILD))
    for names, order in [(n, o) for n in (['predators'], ['kind'], ['A', 'predators', 'B'], ['kind', 'predators'],
                                          ['prey', 'itemize', 'predators']) for o in (None, 'plain_first', 'sub_first')]:
        case = {'leg': 'subclass', 'names': names, 'order': order}
        ctx.traces += 1
        try:
            ctx.outcome(('subclass',) + hbfs._guard(subclass_case, case))
        except Violation as v:
            ctx.report(case, v)
            return
    ctx.leg('subclass_library', cases=15)
    for n in ((300,) if ctx.small else (3000,) if ctx.tier == 'quick' else (3000, 40000)):
        for target in ('L1', 'G'):
            case = {'leg': 'many_tags', 'n': n, 'target': target}
            ctx.traces += 1
            try:
                ctx.transitions += hbfs._guard(many_tags_case, case)
                ctx.outcome(('many_tags', n, target))
            except Violation as v:
                ctx.report(case, v)
                return
    ctx.leg('many_tags', note='3000 (thorough also 40000) tags on one library and at module level')
    if ctx.small:
        return
    for case in churn_cases():
        ctx.traces += 1
        ctx.states += case['rounds']
        try:
            ctx.transitions += hbfs._guard(churn_case, case)
        except Violation as v:
            ctx.report(case, v)
            return
    ctx.leg('churn', sequences=12, libraries_each=40)
    names = NAMES + MODULE_NAMES
    hists = [[]] + [[a] for a in names]
    if ctx.tier == 'thorough':
        hists += [[a, b] for a in names for b in names]
    cases = [{'leg': 'fresh_interpreter', 'history': hh} for hh in hists]
    par.pmap(ctx, child_chunk, [cases[i::ctx.procs] for i in range(ctx.procs)], procs=ctx.procs)
    ctx.leg('fresh_interpreter', processes=len(cases))
    ctx.sample(cases[1])


def replay(case):
    if case['leg'] == 'wild':
        hbfs._guard(wild_case, case)
        return
    if case['leg'] == 'subclass':
        hbfs._guard(subclass_case, case)
        return
    if case['leg'] == 'many_tags':
        hbfs._guard(many_tags_case, case)
        return
    if case['leg'] == 'blind':
        hbfs._guard(blind_case, case)
    elif case['leg'] == 'churn':
        hbfs._guard(churn_case, case)
    elif case['leg'] == 'fresh_interpreter':
        hbfs._guard(child_case, case)
    else:
        hbfs.replay_case(Harness(case['config']['target'], case['config']['names']), case)
