"""C05 - systems changing the system set mid-timestep never cause skips or reruns.

E2: every scenario = (priority vector, acting system, timestep, action) - thorough: every pair of actions in the
same timestep - is executed on the real scheduler for 3 timesteps; the per-timestep event sequence
(run / removed / added, in program order) is judged by the rules of the property.
"""
import itertools

from mc.engine import hbfs, par
from mc.engine.report import Violation
from mc.engine.seams import reset_library, new_model

import ECAgent.Core as Core
from ECAgent.Collectors import Collector

META = {
    'rule': 'full product of base priority vectors x actor position x timestep x action (thorough: x second action); '
            'one execution of 3 timesteps per scenario; distinct_nontrivial counts distinct event sequences',
    'alphabet': {'priority_vectors': 'all non-increasing vectors over {1,0,-1} of length 2..4 (thorough 2..5)',
                 'actions': 'remove self | remove system j (earlier or later) | register a new system of priority '
                            '2,1,0,-1,-2 | remove and re-register a later (or earlier) system | remove a system and register a '
                            'different object under its id | clean_up() (self)',
                 'timestep of the action': [0, 1],
                 'variants': 'systems comparing by value (__eq__ on id and priority) for replace/re-add; 40 systems in four '
                             'priority bands with the actor / target at band boundaries and interiors'},
    'bounds': {'quick': 'one action per scenario', 'thorough': 'one and two actions (same or different actors) in the '
               'same timestep'},
    'assumptions': ['whether a system registered mid-timestep first runs in that timestep or the next is left open '
                    '(0 or 1 runs accepted), as the property states'],
}


def vectors(maxlen):
    for n in range(2, maxlen + 1):
        for v in itertools.combinations_with_replacement((1, 0, -1), n):
            yield list(v)


def actions_for(n, actor):
    acts = [{'kind': 'remove', 'target': actor}, {'kind': 'cleanup'}]
    for j in range(n):
        if j != actor:
            acts.append({'kind': 'remove', 'target': j})
            acts.append({'kind': 'readd', 'target': j})
            acts.append({'kind': 'replace', 'target': j})
            acts.append({'kind': 'reprio', 'target': j, 'prio': 2})
            acts.append({'kind': 'reprio', 'target': j, 'prio': -2})
    for p in (2, 1, 0, -1, -2):
        acts.append({'kind': 'add', 'prio': p})
    return acts


def scenarios(tier):
    maxlen = 4 if tier == 'quick' else 5
    for v in vectors(maxlen):
        n = len(v)
        for t in (0, 1):
            for actor in range(n):
                for act in actions_for(n, actor):
                    yield {'leg': 'one_action', 'prios': v, 't': t, 'acts': [dict(act, actor=actor)]}
                    if act['kind'] == 'add' and act['prio'] in (1, -1):
                        # the system registered mid-timestep is a veteran: the same object served an earlier model
                        for k in (1, 2, 3):
                            yield {'leg': 'veteran', 'prios': v, 't': t, 'acts': [dict(act, actor=actor)], 'veteran': k}
    # the same scenarios driven by ONE execute(3) call, and once more with an independent model stepped from inside
    # the acting system's turn
    for v in vectors(maxlen):
        n = len(v)
        for t in (0, 1):
            for actor in range(n):
                for act in actions_for(n, actor):
                    yield {'leg': 'multi_drive', 'prios': v, 't': t, 'acts': [dict(act, actor=actor)], 'drive': 'multi'}
                    yield {'leg': 'sandbox', 'prios': v, 't': t, 'acts': [dict(act, actor=actor)], 'sandbox': True}
                # two actions by the same actor in one turn (e.g. remove one system and register another)
                for a1, a2 in (({'kind': 'remove', 'target': (actor + 1) % n}, {'kind': 'add', 'prio': 0}),
                               ({'kind': 'add', 'prio': 1}, {'kind': 'remove', 'target': (actor + 1) % n})):
                    if n > 1:
                        for drive in ('single', 'multi'):
                            yield {'leg': 'swap', 'prios': v, 't': t, 'drive': drive,
                                   'acts': [dict(a1, actor=actor), dict(a2, actor=actor)]}
    # systems that compare by value: every replace / re-add scenario once more
    for v in vectors(maxlen):
        n = len(v)
        for t in (0, 1):
            for actor in range(n):
                for act in actions_for(n, actor):
                    if act['kind'] in ('replace', 'readd'):
                        yield {'leg': 'eq_by_value', 'prios': v, 't': t, 'acts': [dict(act, actor=actor)],
                               'eq_by_value': True}
    # ids that are not plain strings, system classes with an ordering of their own, work handed to a helper thread
    for v in vectors(3):
        n = len(v)
        for t in (0, 1):
            for actor in range(n):
                for act in actions_for(n, actor):
                    for flag in ({'id_kind': 'int'}, {'id_kind': 'strsub'}, {'id_kind': 'strenum'}, {'id_kind': 'tuple'},
                                 {'own_lt': True}, {'via_thread': True}):
                        yield dict({'leg': 'variants', 'prios': v, 't': t, 'acts': [dict(act, actor=actor)]}, **flag)
    # collectors among the systems: the target of the action, or every system, is a collector
    for v in vectors(3):
        n = len(v)
        for t in (0, 1):
            for actor in range(n):
                for act in actions_for(n, actor):
                    tgt = act.get('target', actor)
                    for coll in ([tgt], list(range(n))):
                        yield {'leg': 'collector_kind', 'prios': v, 't': t, 'acts': [dict(act, actor=actor)],
                               'collectors': coll}
    # a system with a finite window is acted upon in its last eligible timestep (end == t) and in the first timestep
    # after it (end == t - 1); one more timestep is run to see what became of a replacement
    for v in vectors(3):
        n = len(v)
        for actor in range(n):
            for act in actions_for(n, actor):
                if 'target' in act and act['target'] != actor:
                    for end in (0, 1):
                        yield {'leg': 'finite_end', 'prios': v, 't': 1, 'acts': [dict(act, actor=actor)],
                               'ends': {str(act['target']): end}, 'steps': 4}
    # one extra object N registered / removed by two actors at up to three points of a five-timestep run
    moves = [(t, a, k) for t in (0, 1, 2) for a in (0, 1) for k in ('addN', 'removeN')]
    seqs = [[m] for m in moves] + [[m1, m2] for m1 in moves for m2 in moves if m1[0] <= m2[0] and m1 != m2]
    seqs += [[m1, m2, m3] for m1 in moves for m2 in moves for m3 in moves
             if m1[0] <= m2[0] <= m3[0] and len({m1, m2, m3}) == 3 and m1[2] == 'addN']
    for v in ([1, 0], [1, 1]) if tier == 'quick' else ([1, 0], [1, 1], [0, 0, -1]):
        for n_prio in (2, 0, -1):
            for sq in seqs:
                yield {'leg': 'shared_object', 'prios': v, 't': 0, 'n_prio': n_prio, 'steps': 5,
                       'acts': [{'kind': k, 'actor': a, 't': t} for t, a, k in sq]}
    # the population shrinks first (a system removes itself or another one), in later timesteps a new object N comes and
    # goes again, then a further timestep: bookkeeping derived from the NUMBER of registered systems meets its past
    for v in ([1, 0, 0, 0], [0, 0, 0], [1, 1, 0, 0]) if tier == 'quick' else ([1, 0, 0, 0], [0, 0, 0], [1, 1, 0, 0], [0, 0, 0, 0, -1]):
        n = len(v)
        for gone in range(n):
            for remover in sorted({gone, 0}):
                for lead in (0, (gone + 1) % n):
                    if lead == gone:
                        continue
                    for n_prio in (1, 0, -1):
                        yield {'leg': 'shrink_then_churn', 'prios': v, 't': 0, 'n_prio': n_prio, 'steps': 5,
                               'acts': [{'kind': 'remove', 'target': gone, 'actor': remover, 't': 0},
                                        {'kind': 'addN', 'actor': lead, 't': 1}, {'kind': 'removeN', 'actor': lead, 't': 2},
                                        {'kind': 'addN', 'actor': lead, 't': 3}]}
    # two systems registered in ONE turn (same or different priorities), by one actor or by two actors of one timestep:
    # from the next timestep on they run in the order they were registered
    for v in ([1, 0], [0, 0, 0]):
        n = len(v)
        for t in (0, 1):
            for a1 in range(n):
                for a2 in sorted({a1, (a1 + 1) % n}):
                    for p1, p2 in ((2, 2), (0, 0), (-2, -2), (0, 2), (2, 0), (-2, 0)):
                        yield {'leg': 'double_add', 'prios': v, 't': t, 'steps': 4,
                               'acts': [{'kind': 'add', 'prio': p1, 'actor': a1}, {'kind': 'add', 'prio': p2, 'actor': a2}]}
    # three actions in one turn: the actor removes itself and its immediate follower and changes the queue ahead of its own
    # slot (removes an earlier system / registers one of higher priority)
    for v in ([2, 1, 1, 1, 0], [1, 1, 1, 1], [3, 2, 1, 0, -1]):
        n = len(v)
        for actor in range(1, n - 1):
            for third in ({'kind': 'remove', 'target': 0}, {'kind': 'add', 'prio': 5}, {'kind': 'add', 'prio': v[actor]},
                          {'kind': 'remove', 'target': n - 1}):
                for order in ((0, 1, 2), (2, 0, 1), (1, 2, 0)):
                    three = [{'kind': 'remove', 'target': actor}, {'kind': 'remove', 'target': actor + 1}, dict(third)]
                    yield {'leg': 'triple', 'prios': v, 't': 1, 'steps': 4, 'acts': [dict(three[i], actor=actor) for i in order]}
    # the LAST system of the queue retires mid-timestep; afterwards a system of lower priority and one in between are
    # registered (in either order, in one or two later timesteps)
    for v in ([2, 1, 0], [1, 1, 0], [0, 0, -1]):
        n = len(v)
        low = v[-1]
        for who in (n - 1, 0):
            for (pa, ta), (pb, tb) in (((low - 2, 1), (low - 1, 2)), ((low - 2, 1), (low - 1, 1)), ((low - 1, 1), (low - 2, 2)),
                                       ((low - 2, 2), (low, 2)), ((low - 3, 1), (low - 1, 3))):
                yield {'leg': 'pop_last', 'prios': v, 't': 0, 'steps': 6,
                       'acts': [{'kind': 'remove', 'target': n - 1, 'actor': who, 't': 0},
                                {'kind': 'add', 'prio': pa, 'actor': 0, 't': ta}, {'kind': 'add', 'prio': pb, 'actor': 0, 't': tb}]}
    # sparse schedules: every system present at the start of the timestep runs only every 2nd / 3rd timestep; a system
    # registered during a timestep is due in timesteps the others sit out
    for v, fr in (([1, 0], {'0': 2, '1': 3}), ([0, 0, -1], {'0': 2, '1': 2, '2': 4}), ([2, 1], {'0': 3, '1': 3})):
        n = len(v)
        for actor in range(n):
            for t in (0,):
                for p in (3, 0, -3):
                    for f in (1, 2):
                        yield {'leg': 'sparse', 'prios': v, 'freqs': fr, 't': t, 'steps': 7,
                               'acts': [{'kind': 'add', 'prio': p, 'freq': f, 'actor': actor, 't': t}]}
    # the acting system fails right after its action (the driver catches the error and carries on); what was removed
    # is registered again one or two timesteps later
    for v in ([1, 0], [1, 1], [0, 1, 0]) if tier == 'quick' else list(vectors(3)):
        n = len(v)
        for actor in range(n):
            for j in range(n):
                if j == actor:
                    continue
                for t2 in (1, 2):
                    for back in ('readd', 'replace'):
                        yield {'leg': 'fault_then_back', 'prios': v, 't': 0, 'steps': 4,
                               'acts': [{'kind': 'remove', 'target': j, 'actor': actor, 't': 0, 'boom': True},
                                        {'kind': 'add_back', 'target': j, 'actor': actor, 't': t2, 'how': back}]}
            for n_prio in (2, -1):
                for boom in (True, 'hard'):
                    yield {'leg': 'fault_then_back', 'prios': v, 't': 0, 'steps': 4, 'n_prio': n_prio,
                           'acts': [{'kind': 'addN', 'actor': actor, 't': 0},
                                    {'kind': 'removeN', 'actor': actor, 't': 1, 'boom': boom},
                                    {'kind': 'addN', 'actor': actor, 't': 2}]}
                # an interrupted timestep (nothing removed), then a plain registration in a later timestep
                yield {'leg': 'fault_then_back', 'prios': v, 't': 0, 'steps': 4, 'n_prio': n_prio,
                       'acts': [{'kind': 'noop', 'actor': actor, 't': 0, 'boom': 'hard'}, {'kind': 'addN', 'actor': actor, 't': 1}]}
    # two systems registered mid-timestep, the first of which removes the second on its own first turn
    for v in vectors(3):
        n = len(v)
        for t in (0, 1):
            for actor in range(n):
                for p1, p2 in ((2, 1), (2, 2), (0, -2), (-2, -3), (1, 0)):
                    yield {'leg': 'new_actor', 'prios': v, 't': t, 'steps': 4,
                           'acts': [{'kind': 'add_pair', 'actor': actor, 'prio1': p1, 'prio2': p2}]}
    # many systems (priority bands of ties): the acting system and its target at every band position
    big = [3] * 10 + [2] * 10 + [1] * 12 + [0] * 8
    for actor in (0, 5, 9, 10, 15, 21, 22, 31, 32, 39):
        for target in (0, 4, 9, 14, 19, 20, 27, 33, 39):
            for kind in ('remove', 'readd', 'replace'):
                if kind == 'remove' or target != actor:
                    yield {'leg': 'many_systems', 'prios': big, 't': 1,
                           'acts': [{'kind': kind, 'target': target, 'actor': actor}]}
        yield {'leg': 'many_systems', 'prios': big, 't': 1, 'acts': [{'kind': 'cleanup', 'actor': actor}]}
        yield {'leg': 'many_systems', 'prios': big, 't': 0, 'acts': [{'kind': 'add', 'prio': 2, 'actor': actor}]}
        # a newcomer whose priority lies strictly between two registered levels / below the lowest / above the highest
        for pr in (0.5, 1.5, 2.5, -0.5, 3.5):
            yield {'leg': 'many_systems', 'prios': big, 't': 0, 'steps': 3, 'acts': [{'kind': 'add', 'prio': pr, 'actor': actor}]}
        # ... and with a single system at the very bottom / at the very top
        for pr in (-0.5, -1.5, 3.5, 4.5):
            yield {'leg': 'many_systems', 'prios': [4] + big[:-1] + [-1], 't': 0, 'steps': 3,
                   'acts': [{'kind': 'add', 'prio': pr, 'actor': actor}]}
    # forty systems in bands plus one registered LAST whose priority lies mid-order: it retires (removes itself) and
    # registers a successor of the same priority in the same timestep
    for band in (3, 2, 1):
        late = len(big)
        for first in ('cleanup', 'remove'):
            a1 = {'kind': 'cleanup', 'actor': late} if first == 'cleanup' else {'kind': 'remove', 'target': late, 'actor': late}
            for p2 in (band, band - 1, band + 1):
                yield {'leg': 'many_systems', 'prios': big + [band], 't': 1, 'steps': 4,
                       'acts': [a1, {'kind': 'add', 'prio': p2, 'actor': late}]}
    if tier == 'thorough':
        for v in vectors(4):
            n = len(v)
            for t in (0, 1):
                for a1 in range(n):
                    for a2 in range(a1, n):
                        for x in actions_for(n, a1):
                            for y in actions_for(n, a2):
                                yield {'leg': 'two_actions', 'prios': v, 't': t,
                                       'acts': [dict(x, actor=a1), dict(y, actor=a2)]}


class DueMap(dict):
    """ends.get(k, t) >= t  <=>  system k is due in timestep t: its window is still open (the dict itself: key -> end) and
    t is a multiple of its frequency (all systems here start at 0)."""

    def __init__(self):
        super().__init__()
        self.freq = {}

    def get(self, k, t):
        if t % self.freq.get(k, 1) != 0:
            return t - 1
        return dict.get(self, k, t)

    def __getitem__(self, k):
        return dict.get(self, k, f'every {self.freq.get(k, 1)}')


class Halt(Exception):
    pass


class HardStop(BaseException):
    """An interruption that is not an Exception (like KeyboardInterrupt / SystemExit raised inside a system)."""


def run_scenario(case):
    reset_library()
    prios, t_act, acts = case['prios'], case['t'], [dict(a) for a in case['acts']]
    model = new_model(seed=1)
    events = []
    stamps = []       # timestep of every 'run' event (parallel to the run events)
    starts = {}
    seq = [0]
    reg = {}          # key -> (priority, registration sequence number) for currently registered systems

    ends = DueMap()   # key -> last eligible timestep, for systems with a finite window (and key -> frequency)

    def body(self):
        if self.muted:
            return
        t_now = model.systems.timestep
        if t_now not in starts:
            starts[t_now] = dict(reg)      # registry at the start of this timestep (before any action in it)
        events.append(('run', self.key))
        stamps.append(t_now)
        if len(events) > 60 + 3 * len(prios):     # make a runaway timestep visible instead of looping forever
            raise Violation(f'timestep {model.systems.timestep} does not terminate: more than 60 events',
                            expected='each system at most once', observed=events[:12] + ['...'])
        now = [act for act in self.todo if act.get('t', t_act) in (t_now, 'first') and not act.get('done')]
        if now:
            if case.get('sandbox'):
                run_sandbox()
            for act in now:
                act['done'] = True
                if case.get('via_thread'):
                    # the system hands its work to a helper thread and waits for it
                    import threading
                    err = []

                    def work():
                        try:
                            perform(self, act)
                        except BaseException as e:      # noqa - re-raised in the system's own thread
                            err.append(e)
                    th = threading.Thread(target=work)
                    th.start()
                    th.join()
                    if err:
                        raise err[0]
                else:
                    perform(self, act)
                if act.get('boom') == 'hard':
                    raise HardStop(f'{self.key} is interrupted after its action')
                if act.get('boom'):
                    raise Halt(f'{self.key} fails after its action')      # the driver catches it and carries on

    idmap = {}

    def I(sid):
        """The id the scheduler sees for the harness name sid: the name itself, or (id_kind) a value of another type."""
        kind = case.get('id_kind')
        if kind is None:
            return sid
        if sid not in idmap:
            if kind == 'int':
                idmap[sid] = 1000 + len(idmap)
            elif kind == 'strsub':
                idmap[sid] = type('Name', (str,), {})(sid)
            elif kind == 'strenum':
                import enum
                idmap[sid] = enum.Enum('Stage', {sid: sid}, type=str)[sid]
            elif kind == 'tuple':
                idmap[sid] = ('sys', sid)
        return idmap[sid]

    class S(Core.System):
        # key names the object (unique), id is what the scheduler sees (a replacement object reuses an id)
        def __init__(self, key, sid, prio, end=None, freq=1):
            super().__init__(I(sid), model, priority=prio, frequency=freq, **({} if end is None else {'end': end}))
            self.key = key
            self.sid = sid
            self.todo = []
            self.muted = False
            if end is not None:
                ends[key] = end
            if freq != 1:
                ends.freq[key] = freq

        execute = body

    class SC(Collector):
        """The same recorder as a collector (other base constructor; the library may treat collectors specially)."""

        def __init__(self, key, sid, prio, end=None):
            super().__init__(I(sid), model, priority=prio, **({} if end is None else {'end': end}))
            self.key = key
            self.sid = sid
            self.todo = []
            self.muted = False
            if end is not None:
                ends[key] = end

        collect = body

    coll_idx = set(case.get('collectors', ()))

    def make(key, sid, prio, like=None, end=None, freq=1):
        cls = SC if (like is not None and isinstance(like, SC)) or (like is None and key.startswith('s') and
                                                                    key[1:].isdigit() and int(key[1:]) in coll_idx) else S
        return cls(key, sid, prio, end) if freq == 1 else cls(key, sid, prio, end, freq)

    def run_sandbox():
        # an independent little model is built and stepped from inside this system's turn
        sb = new_model(seed=5)

        class Q(Core.System):
            def execute(self):
                pass
        for i in range(3):
            sb.systems.add_system(Q(f'q{i}', sb, priority=i % 2))
        sb.execute(2)

    if case.get('eq_by_value'):
        # system classes that compare by value (dataclass style): a replacement object equals the one it replaces
        for cls in (S, SC):
            cls.__eq__ = lambda a, b: isinstance(b, Core.System) and (a.id, a.priority) == (b.id, b.priority)
            cls.__hash__ = lambda a: hash((a.id, a.priority))

    if case.get('own_lt'):
        # system classes with an ordering of their own (alphabetical, for sorted() listings): no say in the schedule
        for cls in (S, SC):
            cls.__lt__ = lambda a, b: a.key < b.key

    objs = {}
    byid = {}         # id -> key of the object currently registered under it

    def register(o):
        model.systems.add_system(o)
        reg[o.key] = (o.priority, seq[0])
        byid[o.sid] = o.key
        seq[0] += 1

    def unregister(sid):
        model.systems.remove_system(I(sid))
        key = byid.pop(sid)
        del reg[key]
        events.append(('removed', key))

    def perform(actor, act):
        kind = act['kind']
        if kind == 'cleanup':
            if byid.get(actor.sid) == actor.key:
                actor.clean_up()
                del reg[byid.pop(actor.sid)]
                events.append(('removed', actor.key))
        elif kind == 'remove':
            sid = f's{act["target"]}'
            if sid in byid:
                unregister(sid)
        elif kind == 'add_back':
            # a system removed earlier comes back: the same object, or a new object under the same id
            sid = f's{act["target"]}'
            if sid not in byid:
                if act['how'] == 'readd':
                    o = objs[sid]
                else:
                    o = objs[f'b{sid}'] = S(f'b{sid}', sid, prios[act['target']])
                register(o)
                events.append(('added', o.key))
        elif kind == 'readd':
            sid = f's{act["target"]}'
            if sid in byid:
                key = byid[sid]
                unregister(sid)
                register(objs[key])
                events.append(('added', key))
        elif kind == 'replace':
            sid = f's{act["target"]}'
            if sid in byid:
                old = objs[byid[sid]]
                unregister(sid)
                key = f'r{len([k for k in objs if k.startswith("r")])}'
                o = objs[key] = make(key, sid, old.priority, like=old)
                register(o)
                events.append(('added', key))
        elif kind == 'reprio':
            # the usual re-prioritise idiom: change the attribute, remove, register again (same object)
            sid = f's{act["target"]}'
            if sid in byid:
                key = byid[sid]
                objs[key].priority = act['prio']
                unregister(sid)
                register(objs[key])
                events.append(('added', key))
        elif kind == 'noop':
            pass
        elif kind == 'add_pair':
            # two new systems are registered; the first of them is an actor itself: on its first turn it removes the
            # second one again
            n1 = objs['P1'] = S('P1', 'P1', act['prio1'])
            n2 = objs['P2'] = S('P2', 'P2', act['prio2'])
            n1.todo.append({'kind': 'remove_id', 'id': 'P2', 't': 'first'})
            for o in (n1, n2):
                register(o)
                events.append(('added', o.key))
        elif kind == 'remove_id':
            if act['id'] in byid:
                unregister(act['id'])
        elif kind == 'addN':
            # ONE extra object shared by all such actions: registered if it is not registered at the moment
            if 'N' not in byid:
                register(objs['N'])
                events.append(('added', 'N'))
        elif kind == 'removeN':
            if 'N' in byid:
                unregister('N')
        elif kind == 'add':
            key = f'n{len([k for k in objs if k.startswith("n")])}'
            o = objs[key] = S(key, key, act['prio'], None, act.get('freq', 1))
            if case.get('veteran'):
                # the object ran in an earlier, unrelated model for some timesteps before it is handed to this one
                old = new_model(seed=8)
                o.model, o.muted = old, True
                old.systems.add_system(o)
                old.execute(case['veteran'])
                old.systems.remove_system(o.id)
                o.model, o.muted = model, False
            register(o)
            events.append(('added', key))

    case_ends = {int(k): v for k, v in case.get('ends', {}).items()}
    for i, p in enumerate(prios):
        objs[f's{i}'] = make(f's{i}', f's{i}', p, end=case_ends.get(i), freq=case.get('freqs', {}).get(str(i), 1))
    if 'n_prio' in case:
        objs['N'] = S('N', 'N', case['n_prio'])
    for i in range(len(prios)):
        register(objs[f's{i}'])
    for act in acts:
        objs[f's{act["actor"]}'].todo.append(act)

    trace = []
    nsteps = case.get('steps', 4 if len(prios) > 8 else 3)
    if case.get('drive') == 'multi':
        # one call advances all timesteps; the event stream is cut into timesteps afterwards
        first_reg = dict(reg)
        model.execute(nsteps)
        cuts, run_i = [[] for _ in range(nsteps)], 0
        cur = 0
        for e in events:
            if e[0] == 'run':
                cur = stamps[run_i]
                run_i += 1
            if cur < nsteps:
                cuts[cur].append(e)
        for t in range(nsteps):
            trace.append(cuts[t])
            judge(t, starts.get(t, first_reg if t == 0 else dict(reg)), cuts[t], None, ends)
    else:
        for t in range(nsteps):
            for attempt in range(3):
                start_reg = dict(reg)
                del events[:]
                try:
                    model.execute()
                except (Halt, HardStop):
                    # a system failed in the middle of the timestep: what ran so far is judged for order and
                    # double runs only; the caller carries on, which runs the interrupted timestep again
                    ev = list(events)
                    trace.append(ev)
                    judge(t, start_reg, ev, dict(reg), ends, partial=True)
                    if model.timestep != t:
                        raise Violation(f'a failed timestep {t} advanced the clock', expected=t, observed=model.timestep)
                    continue
                break
            ev = list(events)
            trace.append(ev)
            judge(t, start_reg, ev, dict(reg), ends)
    if model.timestep != nsteps:
        raise Violation('clock differs from the number of steps', observed=model.timestep)
    return tuple(tuple(e) for ev in trace for e in ev)


def judge(t, start_reg, ev, end_reg, ends=None, partial=False):
    ends = ends if ends is not None else {}
    runs = [k for kind, k in ev if kind == 'run']
    for k in runs:
        if ends.get(k, t) < t:
            raise Violation(f'timestep {t}: system {k} ran after its window had closed (end {ends[k]})', observed=ev)
    # 1. nothing runs twice
    for k in set(runs):
        if runs.count(k) > 1:
            raise Violation(f'timestep {t}: system {k} ran {runs.count(k)} times', expected='at most once',
                            observed=ev)
    removed, added = set(), set()
    ran = set()
    for kind, k in ev:
        if kind == 'run':
            # 4. a system removed before its turn (and not registered again since) does not run
            if k in removed and k not in added:
                raise Violation(f'timestep {t}: system {k} ran after it had been removed', observed=ev)
            if k not in start_reg and k not in added:
                raise Violation(f'timestep {t}: unknown system {k} ran', observed=ev)
            ran.add(k)
        elif kind == 'removed':
            removed.add(k)
            added.discard(k)
        elif kind == 'added':
            added.add(k)
    # 2. every system registered for the whole timestep runs exactly once
    stable = [k for k in start_reg if k not in removed and ends.get(k, t) >= t]
    if partial:
        stable = [k for k in stable if k in ran]      # an interrupted timestep: only what did run is judged
    for k in stable:
        if k not in ran:
            raise Violation(f'timestep {t}: system {k} stayed registered for the whole timestep but was skipped',
                            expected=sorted(stable, key=lambda k: (-start_reg[k][0], start_reg[k][1])), observed=ev)
    # 3. those runs respect priority order / registration order
    exp_order = sorted(stable, key=lambda k: (-start_reg[k][0], start_reg[k][1]))
    got_order = [k for k in runs if k in stable]
    if got_order != exp_order:
        raise Violation(f'timestep {t}: systems registered throughout ran out of order', expected=exp_order,
                        observed=got_order)
    # 5. a timestep without any change is fully regular
    if not removed and not added and not partial:
        full = sorted((k for k in start_reg if ends.get(k, t) >= t), key=lambda k: (-start_reg[k][0], start_reg[k][1]))
        if runs != full:
            raise Violation(f'timestep {t}: regular timestep differs from priority/registration order',
                            expected=full, observed=runs)


def chunk_fn(ctx, chunk):
    for case in chunk:
        ctx.traces += 1
        ctx.states += 1
        ctx.transitions += 3
        try:
            ctx.outcome(hbfs._guard(run_scenario, case))
        except Violation as v:
            ctx.report(case, v)
            if ctx.full():
                return


# the cheap legs run once more under the runner's ambient configurations (python -O, other logger levels)
AMBIENT_LEGS = True


def nested_case(case):
    """A system removes a later system; another system then advances the SAME model from inside its turn (a nested
    step), and the outer timestep carries on: whatever else such a step means, the removed system never runs again."""
    reset_library()
    model = new_model(seed=1)
    log = []
    depth = [0]

    class Rec(Core.System):
        def execute(self):
            log.append((self.id, len(removed) > 0))

    removed = []
    stepped = []

    class Remover(Rec):
        def execute(self):
            super().execute()
            late = case.get('when') == 'outer_after'
            if not removed and ((not late and self.model.systems.timestep == case['t']) or
                                (late and self.model.systems.timestep >= case['t'] and depth[0] == 0 and stepped)):
                self.model.systems.remove_system('victim')
                removed.append(True)

    class Stepper(Rec):
        def execute(self):
            super().execute()
            if self.model.systems.timestep == case['t'] and depth[0] == 0:
                depth[0] += 1
                self.model.execute(case['inner'])
                depth[0] -= 1
                stepped.append(True)
    order = {'remover_first': [('remover', Remover, 5), ('stepper', Stepper, 4)],
             'stepper_first': [('stepper', Stepper, 5), ('remover', Remover, 4)]}[case['order']]
    for sid, cls, prio in order:
        model.systems.add_system(cls(sid, model, priority=prio))
    model.systems.add_system(Rec('victim', model, priority=case['victim_prio']))
    model.systems.add_system(Rec('mid', model, priority=-1))
    model.systems.add_system(Rec('tail', model, priority=-9))
    for _ in range(case['t'] + 2):
        model.execute()
    for who in ('mid', 'tail'):
        runs = sum(1 for e in log if e[0] == who)
        if runs != model.timestep:
            raise Violation(f'system {who}, registered throughout behind the acting systems, did not run once per step of the '
                            f'model - outer and nested steps alike ({case})', expected=model.timestep, observed=runs)
    bad = [e for e in log if e == ('victim', True)]
    if bad:
        raise Violation(f'a system removed during timestep {case["t"]} ran afterwards (another system advanced the model from '
                        f'inside its turn in that timestep: {case})', expected='never again', observed=log[-8:])
    return len(log)


def resort_case(case):
    """A system re-prioritises others and puts the scheduler's public queue in order IN PLACE (sort / reverse) from inside
    its turn.  Which order the queue then has is the user's doing - but in the timestep in which it happens nobody runs
    twice and nobody registered throughout is skipped."""
    reset_library()
    model = new_model(seed=1)
    log = []

    class Rec(Core.System):
        def execute(self):
            log.append((self.model.systems.timestep, self.id))

    class Rebalance(Rec):
        def execute(self):
            super().execute()
            if self.model.systems.timestep == case['t']:
                q = self.model.systems.execution_queue
                if case['how'] == 'reverse':
                    q.reverse()
                else:
                    for s_ in q:
                        if s_.id in case['bump']:
                            s_.priority = case['bump'][s_.id]
                    q.sort(key=lambda s_: -s_.priority)
    prios = case['prios']
    for i, p in enumerate(prios):
        cls = Rebalance if i == case['actor'] else Rec
        model.systems.add_system(cls(f's{i}', model, priority=p))
    for _ in range(case['t'] + 2):
        model.execute()
    for t in range(case['t'] + 2):
        ran = [k for tt, k in log if tt == t]
        if sorted(ran) != sorted(f's{i}' for i in range(len(prios))):
            raise Violation(f'timestep {t}: the queue was put in order in place ({case["how"]}) by s{case["actor"]} during timestep '
                            f'{case["t"]}: every registered system runs exactly once per timestep', expected=len(prios),
                            observed=ran)
    return len(log)


def resort_cases():
    for prios in ([3, 2, 1, 0], [1, 1, 1, 1], [2, 2, 0, 0, -1]):
        for actor in range(len(prios)):
            for t in (0, 1):
                yield {'leg': 'resort', 'prios': prios, 'actor': actor, 't': t, 'how': 'reverse'}
                for bump in ({'s0': -5}, {f's{len(prios) - 1}': 9}, {'s1': 0, 's2': 7}):
                    yield {'leg': 'resort', 'prios': prios, 'actor': actor, 't': t, 'how': 'sort', 'bump': bump}


def removal_count_case(case):
    """The k-th and (k+1)-th removal in the life of a scheduler happen in ONE turn, before the removed systems' turns (k up
    to 65): neither of them runs in that timestep."""
    reset_library()
    model = new_model(seed=1)
    ran = []

    class Rec(Core.System):
        def execute(self):
            ran.append((self.model.systems.timestep, self.id))
    before = case['before']
    for i in range(before):                       # removals that happened earlier (between timesteps)
        model.systems.add_system(Rec(f'old{i}', model, priority=1))
    for i in range(before):
        model.systems.remove_system(f'old{i}')

    class Reaper(Rec):
        def execute(self):
            super().execute()
            if self.model.systems.timestep == 1:
                self.model.systems.remove_system('v1')
                self.model.systems.remove_system('v2')
    model.systems.add_system(Reaper('reaper', model, priority=9))
    for sid, p in (('v1', 3), ('keep', 2), ('v2', 1), ('tail', 0)):
        model.systems.add_system(Rec(sid, model, priority=p))
    model.execute(3)
    want = [(0, 'reaper'), (0, 'v1'), (0, 'keep'), (0, 'v2'), (0, 'tail'), (1, 'reaper'), (1, 'keep'), (1, 'tail'),
            (2, 'reaper'), (2, 'keep'), (2, 'tail')]
    if ran != want:
        raise Violation(f'{before} removals earlier in the scheduler\'s life, then two more in one turn of timestep 1: what ran',
                        expected=want, observed=ran)
    return len(ran)


def copied_in_turn_case(case):
    """A model is copied (deepcopy / pickle) from INSIDE a system's turn - a checkpoint taken by a system.  In the copy a
    system is removed, the copy is stepped, the system is registered again: it runs again."""
    import copy
    import pickle
    reset_library()
    model = new_model(seed=1)
    snaps = []

    class Checkpoint(_PRec):
        def execute(self):
            _PRec.execute(self)
            if self.model.systems.timestep == 1 and not snaps:
                snaps.append(copy.deepcopy(self.model) if case['how'] == 'deepcopy' else pickle.loads(pickle.dumps(self.model)))
    _CopyHelper.install(Checkpoint)
    model.systems.add_system(Checkpoint('cp', model, priority=5))
    model.systems.add_system(_PRec('x', model, priority=1))
    model.systems.add_system(_PRec('y', model, priority=0))
    model.execute(2)
    c = snaps[0]
    del _PRec.LOG[:]
    x = c.systems['x']
    c.systems.remove_system('x')
    c.execute()
    c.systems.add_system(x)
    c.execute(2)
    got = list(_PRec.LOG)
    t0 = c.systems.timestep - 3
    want = [(t0, 'cp'), (t0, 'y'), (t0 + 1, 'cp'), (t0 + 1, 'x'), (t0 + 1, 'y'), (t0 + 2, 'cp'), (t0 + 2, 'x'), (t0 + 2, 'y')]
    if got != want:
        raise Violation(f'a model copied ({case["how"]}) from inside a system\'s turn; in the copy x was removed, one step, x '
                        f'registered again, two steps', expected=want, observed=got)
    return len(got)


class _PRec(Core.System):
    """Module-level recorder (picklable); the log is class state."""
    LOG = []

    def execute(self):
        _PRec.LOG.append((self.model.systems.timestep, self.id))


class _CopyHelper:
    @staticmethod
    def install(cls):
        # make the locally defined subclass picklable by name
        globals()[cls.__name__] = cls
        cls.__qualname__ = cls.__name__
        cls.__module__ = __name__


def nested_cases():
    for order in ('remover_first', 'stepper_first'):
        for t in (0, 1):
            for inner in (1, 2):
                for vp in (6, 3, 0):
                    yield {'leg': 'nested', 'order': order, 't': t, 'inner': inner, 'victim_prio': vp}
                    if order == 'stepper_first':
                        yield {'leg': 'nested', 'order': order, 't': t, 'inner': inner, 'victim_prio': vp, 'when': 'outer_after'}


def run(ctx):
    for case in nested_cases():
        ctx.traces += 1
        try:
            ctx.transitions += hbfs._guard(nested_case, case)
        except Violation as v:
            ctx.report(case, v)
            return
    for case in [{'leg': 'removal_count', 'before': b} for b in (0, 1, 15, 30, 31, 32, 63, 64)] + \
            [{'leg': 'copied_in_turn', 'how': h} for h in ('deepcopy', 'pickle')]:
        ctx.traces += 1
        try:
            ctx.transitions += hbfs._guard(removal_count_case if case['leg'] == 'removal_count' else copied_in_turn_case, case)
        except Violation as v:
            ctx.report(case, v)
            return
    for case in resort_cases():
        ctx.traces += 1
        try:
            ctx.transitions += hbfs._guard(resort_case, case)
        except Violation as v:
            ctx.report(case, v)
            return
    ctx.leg('nested', note='a removal followed by a nested step of the same model inside the same timestep; the public queue '
                           'sorted / reversed in place from inside a turn')
    cases = list(scenarios(ctx.tier))
    if ctx.small:
        cases = [c for c in cases if c['leg'] == 'one_action']
    size = max(1, len(cases) // (ctx.procs * 4))
    par.pmap(ctx, chunk_fn, [cases[i:i + size] for i in range(0, len(cases), size)], procs=ctx.procs)
    for c in (cases[0], cases[len(cases) // 3], cases[-1]):
        ctx.sample(c)
    ctx.leg('scenarios', scenarios=len(cases), one_action=sum(1 for c in cases if c['leg'] == 'one_action'),
            two_actions=sum(1 for c in cases if c['leg'] == 'two_actions'), timesteps_each=3)


def replay(case):
    if case['leg'] == 'nested':
        hbfs._guard(nested_case, case)
        return
    if case['leg'] == 'resort':
        hbfs._guard(resort_case, case)
        return
    if case['leg'] == 'removal_count':
        hbfs._guard(removal_count_case, case)
        return
    if case['leg'] == 'copied_in_turn':
        hbfs._guard(copied_in_turn_case, case)
        return
    hbfs._guard(run_scenario, case)
