"""C02 - a system runs exactly in its start/end/frequency window; one step = +1 on the clock.

Leg `window_sweep` (E2): every (start, end, frequency, registration time) in the declared ranges, one system,
every timestep up to the horizon.  Leg `multi` (E1): BFS over add / execute(n) / execute_systems / rejected n on a
pool of systems with different windows; execute(n) is compared with n single steps on a twin world.
"""
from sys import maxsize

from mc.engine import hbfs, par
from mc.engine.report import Violation
from mc.engine.seams import Canon, reset_library, public_snapshot, new_model

import ECAgent.Core as Core
from ECAgent.Collectors import Collector

DEFAULT = 'default'

META = {
    'rule': 'window_sweep: full product of (start, end, frequency, registration timestep), every timestep to the '
            'horizon; multi: BFS over histories on a 5-window pool. distinct_nontrivial counts distinct observed '
            '(timestep, system) activation logs',
    'alphabet': {
        'window_sweep': 'start in [-3,5] (thorough [-5,7]); end in {start-2..start+6} + default (thorough -4..+8); '
                        'frequency 1..5 (1..7); registered at timestep 0..6 (0..8); horizon 12 (16)',
        'multi_pool(key,id,priority,start,end,frequency)': 'w0, w1, w1b (another object under id w1, other window), '
                                                            'w2 (negative start), sp (registers w5 at timestep 2), w5',
        'multi_ops': 'add(key), remove(id) incl. unknown, execute(1|2|3), systems.execute_systems(), execute(n) for n in '
                     '0,-1,1.5,"2",True,None',
    },
    'bounds': {'quick': 'sweep horizon 12; multi horizon 6', 'thorough': 'sweep horizon 16; multi horizon 9'},
    'assumptions': ['window attributes are not changed after registration'],
}

# (key, id, priority, start, end, frequency); w1b is a different object registered under w1's id with another window;
# sp is a spawner: when it runs at timestep SPAWN_AT it registers w5 (whose window opens two steps later)
POOL = [('w0', 'w0', 0, 0, DEFAULT, 1), ('w1', 'w1', 1, 2, 5, 2), ('w1b', 'w1', 0, 1, DEFAULT, 3),
        ('w2', 'w2', 0, -1, DEFAULT, 3), ('sp', 'sp', 2, 0, DEFAULT, 1), ('w5', 'w5', 0, 4, DEFAULT, 1)]
SPAWN_AT = 2
BAD_N = [0, -1, 1.5, '2', True, None]


def active(t, start, end, freq):
    if end == DEFAULT:
        end = maxsize
    return start <= t <= end and (t - start) % freq == 0


def make_rec(log):
    class Rec(Core.System):
        def __init__(self, key, model, prio, start, end, freq, sid=None):
            kw = {} if end == DEFAULT else {'end': end}
            super().__init__(sid or key, model, priority=prio, frequency=freq, start=start, **kw)
            self.key = key
            self.spawn = None

        def execute(self):
            if getattr(self, 'escape', False):
                # e.g. this system stepped a finished sub-model with throw_error=True and lets the error escape
                self.escape = False
                raise Core.ModelCompleteError()
            log.append((self.model.systems.timestep, self.key))
            if self.spawn is not None and self.model.systems.timestep == SPAWN_AT \
                    and self.model.systems[self.spawn.id] is None:
                self.model.systems.add_system(self.spawn)

    class FalsyRec(Rec):
        """A system object that is falsy (e.g. a collector whose __len__ is its number of buffered records)."""

        def __len__(self):
            return 0

    class RecCollector(Collector):
        """A collector is a system too: same window rules (other module, other constructor)."""

        def __init__(self, key, model, prio, start, end, freq, sid=None):
            kw = {} if end == DEFAULT else {'end': end}
            super().__init__(sid or key, model, priority=prio, frequency=freq, start=start, **kw)
            self.key = key

        def collect(self):
            log.append((self.model.systems.timestep, self.key))

    Rec.Falsy = FalsyRec
    Rec.Collector = RecCollector
    return Rec


# ---------------------------------------------------------------------------------------------------------
# window sweep
# ---------------------------------------------------------------------------------------------------------

def sweep_case(case):
    start, end, freq, reg, horizon = case['start'], case['end'], case['freq'], case['reg'], case['horizon']
    reset_library()
    model = new_model(seed=1)
    log = []
    Rec = make_rec(log)
    pre = case.get('prelife', 0)
    if pre:
        # the very same system object served an earlier model for `pre` timesteps (there, too, by the window rule) and
        # is then handed to this one: what happened there has no bearing on the schedule here
        old = new_model(seed=9)
        s = Rec('s', old, 0, start, end, freq)
        old.systems.add_system(s)
        old.execute(pre)
        exp0 = [(t, 's') for t in range(pre) if active(t, start, end, freq)]
        if log != exp0:
            raise Violation(f'activations in the earlier model differ from the window predicate', expected=exp0,
                            observed=list(log))
        old.systems.remove_system('s')
        s.model = model
        del log[:]
    elif case.get('kind') == 'assigned':
        # a System subclass that calls the base constructor with defaults and sets its window afterwards (still before
        # it is registered)
        s = Rec('s', model, 0, 0, DEFAULT, 1)
        s.start, s.frequency = start, freq
        if end != DEFAULT:
            s.end = end
    else:
        s = (Rec.Collector if case.get('kind') == 'collector' else Rec)('s', model, 0, start, end, freq)
    if case.get('kind') == 'rebound':
        # what runs at timestep t is the system's execute() as it is AT timestep t: the method is replaced on the
        # instance after registration (a spy / a strategy switched at run time)
        inner = s.execute

        def spy():
            log.append((model.systems.timestep, 'spy'))
            inner()
        rebind_at = reg
    if case.get('kind') == 'new_manager':
        # the model's scheduler object is replaced by a fresh one before anything is registered (a model installing its
        # own SystemManager): Model.execute / Model.timestep follow the scheduler the model holds now
        model.systems = Core.SystemManager(model)
    if end == DEFAULT and s.end != maxsize:
        raise Violation('default end is not sys.maxsize', expected=maxsize, observed=s.end)
    for t in range(horizon):
        if t == reg:
            model.systems.add_system(s)
            if case.get('kind') == 'rebound':
                s.execute = spy
        before = model.timestep
        if before != t or model.systems.timestep != t:
            raise Violation(f'clock is {before}/{model.systems.timestep} after {t} single steps', expected=t,
                            observed=[before, model.systems.timestep])
        n0 = len(log)
        if case.get('kind') == 'escapes' and t == reg:
            s.escape = True
        try:
            model.execute()
        except Core.ModelCompleteError:
            # raised by the system itself while the model is running: it reaches the caller, the model keeps running
            # and the interrupted timestep is still to be done
            if not (case.get('kind') == 'escapes' and t >= reg and active(t, start, end, freq)):
                raise Violation(f'execute() at timestep {t} raised ModelCompleteError although the model is running')
            if not model.is_running() or model.timestep != t or log[n0:]:
                raise Violation(f'a ModelCompleteError escaping from a system at timestep {t} changed the clock / the status',
                                expected=[t, True], observed=[model.timestep, model.is_running()])
            model.execute()
        else:
            if getattr(s, 'escape', False) is False and case.get('kind') == 'escapes' and t == reg and \
                    active(t, start, end, freq):
                raise Violation(f'a ModelCompleteError raised by a system of a RUNNING model at timestep {t} never reached '
                                f'the caller of model.execute()', expected='ModelCompleteError', observed='no exception')
            s.escape = False
        got = log[n0:]
        exp = [(t, 's')] if (t >= reg and active(t, start, end, freq)) else []
        if exp and case.get('kind') == 'rebound':
            exp = [(t, 'spy'), (t, 's')]
        if got != exp:
            raise Violation(f'activation at timestep {t} differs from the window predicate',
                            expected=exp, observed=got)
    if model.timestep != horizon or model.systems.timestep != horizon:
        raise Violation('final clock differs from the number of steps', expected=horizon,
                        observed=[model.timestep, model.systems.timestep])
    return tuple(log)


def long_run_case(case):
    """Thousands of timesteps on one model; a system whose window closed long ago is given a new window (its attributes
    are read at every timestep) and runs in it exactly as the predicate says."""
    reset_library()
    model = new_model(seed=1)
    log = []
    Rec = make_rec(log)
    s = Rec('s', model, 0, 0, 3, 1)
    other = Rec('o', model, -1, 0, DEFAULT, 997)
    model.systems.add_system(s)
    model.systems.add_system(other)
    n = case['steps']
    model.execute(n)
    exp = [(t, 's') for t in range(4)] + [(t, 'o') for t in range(0, n, 997)]
    if sorted(log) != sorted(exp):
        raise Violation(f'{n} timesteps: activations differ from the window predicate', expected=len(exp), observed=len(log))
    del log[:]
    s.start, s.end, s.frequency = n + 1, n + 10, 3
    model.execute(20)
    got = [t for t, k in log if k == 's']
    want = [t for t in range(n, n + 20) if active(t, n + 1, n + 10, 3)]
    if got != want or model.timestep != n + 20:
        raise Violation(f'after {n} timesteps a system whose window had closed was given the window {n + 1}..{n + 10} every '
                        f'3: activations', expected=want, observed=got)
    return n + 20


FINAL_REQUESTS = ['execute()', 'execute(1)', 'execute(2)', 'execute(3)', 'execute_systems()', 'execute_systems(False)',
                  'execute_systems(throw_error=True)', 'execute_systems(True)', 'executeSystems()']


def final_step_case(case):
    """The request that turns out to be the model's last: it is made while the model is running, a system completes the
    model in the middle of it.  The systems ahead of the completer and the completer itself run, the clock moves by one,
    and the request returns normally however it was phrased."""
    reset_library()
    model = new_model(seed=1)
    log = []
    Rec = make_rec(log)
    tc, pos, req = case['tc'], case['pos'], case['request']

    class Fin(Rec):
        def execute(self):
            super().execute()
            self.model.complete()
    prio = {'first': 9, 'mid': 5, 'last': 1}
    systems = [Rec('a', model, prio['first'] if pos != 'first' else 8, 0, DEFAULT, 1),
               Rec('z', model, prio['last'] if pos != 'last' else 2, 0, DEFAULT, 2),
               Fin('fin', model, prio[pos] if pos != 'mid' else 5, tc, tc, 1)]
    for s in systems:
        model.systems.add_system(s)
    if tc:
        model.execute(tc)
    if not model.is_running() or model.timestep != tc:
        raise Violation(f'{tc} plain steps: clock / status', expected=[tc, True], observed=[model.timestep, model.is_running()])
    del log[:]
    sm = model.systems
    calls = {'execute()': lambda: model.execute(), 'execute(1)': lambda: model.execute(1),
             'execute(2)': lambda: model.execute(2), 'execute(3)': lambda: model.execute(n=3),
             'execute_systems()': lambda: sm.execute_systems(), 'execute_systems(False)': lambda: sm.execute_systems(False),
             'execute_systems(throw_error=True)': lambda: sm.execute_systems(throw_error=True),
             'execute_systems(True)': lambda: sm.execute_systems(True), 'executeSystems()': lambda: sm.executeSystems()}
    try:
        calls[req]()
    except Core.ModelCompleteError:
        raise Violation(f'{req} made at timestep {tc} while the model was running raised ModelCompleteError (a system '
                        f'completed the model during that step)', expected='returns normally', observed='ModelCompleteError')
    order = sorted(systems, key=lambda s: -s.priority)
    exp = []
    for s in order:
        if s.key == 'z' and tc % 2:
            continue
        exp.append((tc, s.key))
        if s.key == 'fin':
            break
    if log != exp:
        raise Violation(f'{req} at timestep {tc} (completer {pos}): activations in the final step', expected=exp,
                        observed=list(log))
    if model.timestep != tc + 1 or model.systems.timestep != tc + 1:
        raise Violation(f'{req} made at timestep {tc} while the model was running (a system completed the model during that '
                        f'step): clock', expected=tc + 1, observed=[model.timestep, model.systems.timestep])
    return tuple(log)


def replaced_case(case):
    """A supervisor retires a system during timestep ts and registers another object under the same id (its own window
    and frequency): from then on the retired object never runs, the new one runs by ITS window."""
    reset_library()
    model = new_model(seed=1)
    log = []
    Rec = make_rec(log)
    ts, sp, horizon = case['ts'], case['sup_prio'], 12
    if case.get('eq_by_value'):
        # system classes that compare by value (their id): the replacement equals the object it replaces
        Rec.__eq__ = lambda a, b: isinstance(b, Core.System) and a.id == b.id
        Rec.__hash__ = lambda a: hash(a.id)
    old = Rec('old', model, 3, 0, DEFAULT, case['f_old'], sid='sensor')
    new = Rec('new', model, case['p_new'], case['s_new'], case['s_new'] + 5, case['f_new'], sid='sensor')
    tail = Rec('tail', model, -1, 0, DEFAULT, 1)

    class Sup(Rec):
        def execute(self):
            super().execute()
            self.model.systems.remove_system('sensor')
            self.model.systems.add_system(new)
    sup = Sup('sup', model, sp, ts, ts, 1)
    for s in (old, tail, sup):
        model.systems.add_system(s)
    steps = case['steps']
    done = 0
    for n in steps:
        model.execute(n)
        done += n
    exp = []
    for t in range(done):
        row = []
        if t == ts:
            row.append((sp, 2, 'sup'))
        # the old object runs while it is the registered one: before ts, and at ts only if its turn comes before the supervisor's
        if active(t, 0, DEFAULT, case['f_old']) and (t < ts or (t == ts and 3 >= sp)):
            row.append((3, 0, 'old'))
        # the new object: registered during ts; whether it still runs in ts itself is C05's matter - avoided by s_new > ts
        if t > ts and active(t, case['s_new'], case['s_new'] + 5, case['f_new']):
            row.append((case['p_new'], 3, 'new'))
        row.append((-1, 1, 'tail'))
        exp += [(t, k) for _, _, k in sorted(row, key=lambda r: (-r[0], r[1]))]
    if log != exp:
        raise Violation(f'a system replaced under its id during timestep {ts}: activations differ from the window predicate '
                        f'applied to the object registered at the time', expected=exp, observed=list(log))
    if model.timestep != done or model.systems['sensor'] is not new:
        raise Violation('clock / registered object after the replacement', expected=[done, 'new'],
                        observed=[model.timestep, getattr(model.systems['sensor'], 'key', None)])
    return tuple(log)


def live_priority_case(case):
    """A registered system's priority attribute is changed while it stays registered (where it then runs within a timestep
    is nobody's promise), later it is removed and the same object registered again: at every timestep every registered
    system whose window is open runs exactly once - no more, no less."""
    reset_library()
    model = new_model(seed=1)
    log = []
    Rec = make_rec(log)
    head = Rec('head', model, 5, 0, DEFAULT, 1)
    s = Rec('s', model, 2, 0, DEFAULT, case['freq'])
    tail = Rec('tail', model, case['tail_prio'], 0, DEFAULT, 1)
    for o in (head, s, tail):
        model.systems.add_system(o)
    reg = {'head', 's', 'tail'}
    for t in range(9):
        if t == case['t_change']:
            s.priority = case['new_prio']
        if t == case['t_remove']:
            model.systems.remove_system('s')
            reg.discard('s')
        if t == case['t_back']:
            model.systems.add_system(s)
            reg.add('s')
        n0 = len(log)
        model.execute()
        got = sorted(k for _, k in log[n0:])
        want = sorted(k for k in reg if k != 's' or active(t, 0, DEFAULT, case['freq']))
        if got != want or any(tt != t for tt, _ in log[n0:]):
            raise Violation(f'timestep {t} (priority of s changed from 2 to {case["new_prio"]} at {case["t_change"]} while '
                            f'registered, s removed at {case["t_remove"]}, registered again at {case["t_back"]}): systems that ran',
                            expected=want, observed=[k for _, k in log[n0:]])
    if model.timestep != 9:
        raise Violation('clock after 9 single steps', expected=9, observed=model.timestep)
    return tuple(log)


def live_priority_cases():
    for new_prio in (-3, 0, 3, 7):
        for tail_prio in (-1, 1):
            for t_change in (1, 2):
                for t_remove in (t_change, t_change + 1, t_change + 2):
                    for t_back in (t_remove, t_remove + 1, 99):
                        for freq in (1, 2):
                            yield {'leg': 'live_priority', 'new_prio': new_prio, 'tail_prio': tail_prio, 't_change': t_change,
                                   't_remove': t_remove, 't_back': t_back, 'freq': freq}


def manager_swap_case(case):
    """During a request for n steps a system installs a fresh scheduler on its model (and moves itself and its peers
    over): the request is still worth n single steps - every remaining step advances the scheduler the model holds THEN,
    and the model-level timestep follows it."""
    def drive(single):
        reset_library()
        model = new_model(seed=1)
        log = []
        Rec = make_rec(log)
        peer = Rec('peer', model, 1, 0, DEFAULT, 1)
        swapped = []

        class Swapper(Rec):
            def execute(self):
                super().execute()
                if self.model.systems.timestep == case['at'] and not swapped:
                    swapped.append(True)
                    new = Core.SystemManager(self.model)
                    new.timestep = case['new_clock']
                    self.model.systems = new
                    if case['carry']:
                        new.add_system(peer)
                        new.add_system(self)
        sw = Swapper('sw', model, 0, 0, DEFAULT, 1)
        model.systems.add_system(peer)
        model.systems.add_system(sw)
        if single:
            for _ in range(case['n']):
                model.execute()
        else:
            model.execute(case['n'])
        return (model.timestep, model.systems.timestep, list(log))
    one, many = drive(True), drive(False)
    if one != many:
        raise Violation(f'execute({case["n"]}) is not equivalent to {case["n"]} single steps when a system installs a new '
                        f'scheduler (clock {case["new_clock"]}) during timestep {case["at"]}', expected=one, observed=many)
    if one[0] != one[1]:
        raise Violation('model timestep differs from the timestep of the scheduler the model holds', expected=one[1], observed=one[0])
    return tuple(map(tuple, one[2]))


def wrapped_manager_case(case):
    """A user scheduler class that wraps execute_systems() (to time it, to log it) and hands nothing back - the method never
    had a documented return value: requests for n steps are still worth n single steps."""
    def drive(single):
        reset_library()
        model = new_model(seed=1)
        log = []
        Rec = make_rec(log)

        class Timed(Core.SystemManager):
            def execute_systems(self, *a, **k):
                super().execute_systems(*a, **k)          # (no return: there is nothing documented to return)
        model.systems = Timed(model)
        model.systems.add_system(Rec('r', model, 0, 0, DEFAULT, case['freq']))
        if single:
            for _ in range(case['n']):
                model.execute()
        else:
            model.execute(case['n'])
        return model.timestep, list(log)
    one, many = drive(True), drive(False)
    if one != many or one[0] != case['n']:
        raise Violation(f'a scheduler subclass wrapping execute_systems(): execute({case["n"]}) against {case["n"]} single steps',
                        expected=one, observed=many)
    return tuple(one[1])


def manager_swap_cases():
    for n in (2, 4):
        for at in range(n):
            for new_clock in (0, at + 1, 7):
                for carry in (True, False):
                    yield {'leg': 'manager_swap', 'n': n, 'at': at, 'new_clock': new_clock, 'carry': carry}


def rewind_case(case):
    """The clock is set back by the user (a replayed / rolled-back stretch): what runs in a timestep depends on the
    timestep's number and the windows alone, whether or not that number has been seen before."""
    reset_library()
    model = new_model(seed=1)
    log = []
    Rec = make_rec(log)
    specs = [('every', 2, 0, DEFAULT, 1), ('sparse', 1, case['start'], DEFAULT, case['freq']), ('window', 0, 1, 3, 1)]
    for k, p, st, en, fr in specs:
        model.systems.add_system(Rec(k, model, p, st, en, fr))
    model.execute(case['first'])
    del log[:]
    model.systems.timestep = case['back_to']
    model.execute(case['again'])
    exp = []
    for t in range(case['back_to'], case['back_to'] + case['again']):
        for k, p, st, en, fr in specs:
            if active(t, st, en, fr):
                exp.append((t, k))
    if log != exp or model.timestep != case['back_to'] + case['again']:
        raise Violation(f'{case["first"]} steps, clock set back to {case["back_to"]}, {case["again"]} more steps: activations',
                        expected=exp, observed=list(log))
    return tuple(log)


def rewind_cases():
    for first in (3, 4, 6):
        for back_to in range(0, first):
            for start, freq in ((0, 2), (1, 3), (0, 1)):
                yield {'leg': 'rewind', 'first': first, 'back_to': back_to, 'again': 3, 'start': start, 'freq': freq}


def interrupted_case(case):
    """A system lets an exception escape during one of the steps of a request (StopIteration from a bare next(), a
    KeyError, ...).  Either the error reaches the caller, or the request did what it was asked to do: a request that
    returns normally has advanced the clock by the steps requested and run what was due."""
    reset_library()
    model = new_model(seed=1)
    log = []
    Rec = make_rec(log)
    exc = {'StopIteration': StopIteration, 'KeyError': KeyError, 'GeneratorExit': GeneratorExit, 'StopAsyncIteration': StopAsyncIteration}[case['exc']]
    fired = []

    class Faulty(Rec):
        def execute(self):
            super().execute()
            if self.model.systems.timestep == case['at'] and not fired:
                fired.append(True)
                if case['exc'] == 'StopIteration':
                    next(iter(()))          # a bare next() on an exhausted iterator
                raise exc('from a system')
    for o in (Rec('head', model, 2, 0, DEFAULT, 1), Faulty('faulty', model, 1, 0, DEFAULT, 1), Rec('tail', model, 0, 0, DEFAULT, 1)):
        model.systems.add_system(o)
    n = case['n']
    try:
        if case['how'] == 'execute':
            model.execute(n)
        else:
            for _ in range(n):
                model.systems.execute_systems()
        raised = None
    except BaseException as e:      # noqa - whatever it is, it reached the caller
        raised = e
    if raised is None:
        want = [(t, k) for t in range(n) for k in ('head', 'faulty', 'tail')]
        if model.timestep != n or log != want:
            raise Violation(f'{case["how"]} of {n} step(s) returned normally although a system raised {case["exc"]} during timestep '
                            f'{case["at"]}, and the request was not carried out', expected=[n, len(want)],
                            observed=[model.timestep, list(log)])
    elif model.timestep != model.systems.timestep:
        raise Violation('model timestep differs from the scheduler timestep after an interrupted request')
    return tuple(log)


def interrupted_cases():
    for exc in ('StopIteration', 'KeyError', 'GeneratorExit', 'StopAsyncIteration'):
        for how in ('execute', 'execute_systems'):
            for n in (1, 3):
                for at in range(n):
                    yield {'leg': 'interrupted', 'exc': exc, 'how': how, 'n': n, 'at': at}


def tuned_case(case):
    """A system class whose frequency / end are read-through properties over a setting of the model that is retuned
    while the model runs: what runs in timestep t is decided by the values the attributes have in timestep t."""
    reset_library()
    model = new_model(seed=1)
    log = []
    Rec = make_rec(log)
    setting = {'freq': case['f0'], 'end': case['e0']}

    class Tuned(Rec):
        @property
        def frequency(self):
            return setting['freq']

        @frequency.setter
        def frequency(self, v):      # the base constructor assigns it: the setting stays the model's
            pass

        @property
        def end(self):
            return setting['end']

        @end.setter
        def end(self, v):
            pass
    model.systems.add_system(Tuned('tuned', model, 1, 0, DEFAULT, 1))
    model.systems.add_system(Rec('plain', model, 0, 0, DEFAULT, 1))
    exp = []
    for t in range(10):
        if t == case['at']:
            setting['freq'], setting['end'] = case['f1'], case['e1']
        if active(t, 0, setting['end'], setting['freq']):
            exp.append((t, 'tuned'))
        exp.append((t, 'plain'))
        model.execute()
    if log != exp:
        raise Violation(f'a system whose frequency / end read a model setting ({case["f0"]}, {case["e0"]}) retuned to '
                        f'({case["f1"]}, {case["e1"]}) at timestep {case["at"]}: activations', expected=exp, observed=list(log))
    return tuple(log)


def tuned_cases():
    for f0, f1 in ((1, 3), (3, 1), (2, 5), (4, 2)):
        for e0, e1 in ((20, 20), (20, 5), (3, 20)):
            for at in (1, 2, 4, 6):
                yield {'leg': 'tuned', 'f0': f0, 'f1': f1, 'e0': e0, 'e1': e1, 'at': at}


def replaced_cases():
    for ts in (0, 2, 4):
        for sp in (10, 3, 1):             # supervisor ahead of, level with (registered later), behind the retired system
            for f_old in (1, 2):
                for p_new, s_new, f_new in ((3, ts + 2, 3), (7, ts + 1, 1), (-5, ts + 1, 2)):
                    for steps in ([12], [3, 1, 1, 1, 1, 1, 4]):
                        yield {'leg': 'replaced', 'ts': ts, 'sup_prio': sp, 'f_old': f_old, 'p_new': p_new, 's_new': s_new,
                               'f_new': f_new, 'steps': steps}
                    yield {'leg': 'replaced', 'ts': ts, 'sup_prio': sp, 'f_old': f_old, 'p_new': p_new, 's_new': s_new,
                           'f_new': f_new, 'steps': [12], 'eq_by_value': True}


def sweep_chunk(ctx, chunk):
    for case in chunk:
        ctx.traces += 1
        ctx.transitions += case['horizon']
        ctx.states += 1
        try:
            out = hbfs._guard(sweep_case, case)
            ctx.outcome(out)
        except Violation as v:
            ctx.report(case, v)
            if ctx.full():
                return


def sweep_cases(tier):
    if tier == 'quick':
        starts, ends, freqs, regs, horizon = range(-3, 6), range(-2, 7), range(1, 6), range(0, 7), 12
    else:
        starts, ends, freqs, regs, horizon = range(-5, 8), range(-4, 9), range(1, 8), range(0, 9), 16
    for start in starts:
        for e in list(ends) + [DEFAULT]:
            end = DEFAULT if e == DEFAULT else start + e
            for freq in freqs:
                for reg in regs:
                    for kind in ('system', 'collector'):
                        yield {'leg': 'window_sweep', 'start': start, 'end': end, 'freq': freq, 'reg': reg,
                               'horizon': horizon, 'kind': kind}
                    if reg in (0, 3):
                        for kind in ('assigned', 'new_manager', 'rebound', 'escapes'):
                            yield {'leg': 'window_sweep', 'start': start, 'end': end, 'freq': freq, 'reg': reg,
                                   'horizon': horizon, 'kind': kind}
                    if reg in (0, 2, 5):
                        for pre in (3, 5) if tier == 'quick' else (1, 3, 5, 8):
                            yield {'leg': 'window_sweep', 'start': start, 'end': end, 'freq': freq, 'reg': reg,
                                   'horizon': horizon, 'kind': 'system', 'prelife': pre}


# ---------------------------------------------------------------------------------------------------------
# systems told apart by their ids only; round request sizes
# ---------------------------------------------------------------------------------------------------------

def _id_pool():
    import enum

    class Phase(enum.Enum):
        GROW = 'grow'
        DIE = 'die'

    class Word(enum.Enum):
        ALPHA = 1

    class StrEnum(str, enum.Enum):
        MOVE = 'move'

    class Name(str):
        pass
    return {'str': 'plain', 'int': 7, 'zero': 0, 'enum': Phase.GROW, 'enum2': Word.ALPHA, 'strenum': StrEnum.MOVE,
            'strsub': Name('named'), 'tuple': ('layer', 2), 'bytes': b'raw', 'float': 2.5, 'frozenset': frozenset({1})}


ID_KINDS = ['str', 'int', 'zero', 'enum', 'enum2', 'strenum', 'strsub', 'tuple', 'bytes', 'float', 'frozenset']
ID_WINDOWS = [(0, DEFAULT, 1), (1, 6, 2), (2, DEFAULT, 3), (0, 4, 1), (3, 3, 1), (-2, DEFAULT, 4), (1, DEFAULT, 1),
              (0, 8, 3), (4, DEFAULT, 2), (0, 0, 1), (5, 9, 1)]


def ids_case(case):
    """Systems registered under ids of many kinds (numbers, enum members, str subclasses, tuples ...) or that compare
    and hash equal to one another while registered under different ids: each runs by ITS window."""
    reset_library()
    model = new_model(seed=1)
    log = []
    Rec = make_rec(log)
    pool = _id_pool()
    specs = {}
    if case['kind'] == 'value_equal':
        class Decay(Rec):
            rate = 3

            def __eq__(self, other):
                return isinstance(other, Decay) and other.rate == self.rate

            def __hash__(self):
                return hash(self.rate)
        for i, k in enumerate(case['which']):
            start, end, freq = ID_WINDOWS[i]
            specs[k] = (start, end, freq)
            model.systems.add_system(Decay(k, model, case['prios'][i], start, end, freq))
    else:
        for i, k in enumerate(case['which']):
            start, end, freq = ID_WINDOWS[(i + case.get('shift', 0)) % len(ID_WINDOWS)]
            specs[k] = (start, end, freq)
            model.systems.add_system(Rec(k, model, case['prios'][i], start, end, freq, sid=pool[k]))
    horizon = case['horizon']
    done = 0
    gone = case.get('remove')         # [key, timestep before which it is removed] (steps are single then)
    for n in case['steps']:
        if gone and done == gone[1]:
            model.systems.remove_system(gone[0])
        if n == 1:
            model.execute()
        else:
            model.execute(n)
        done += n
        if model.timestep != done or model.systems.timestep != done:
            raise Violation(f'clock after {done} steps', expected=done, observed=[model.timestep, model.systems.timestep])
    prio = dict(zip(case['which'], case['prios']))
    exp = []
    for t in range(horizon):
        due = [k for k in case['which'] if active(t, *specs[k]) and not (gone and k == gone[0] and t >= gone[1])]
        due.sort(key=lambda k: -prio[k])
        exp += [(t, k) for k in due]
    if log != exp:
        bad = next((i for i, (a, b) in enumerate(zip(log, exp)) if a != b), min(len(log), len(exp)))
        raise Violation(f'systems {case["which"]} ({case["kind"]}): activations differ from the window predicate from entry '
                        f'{bad} on', expected=exp[bad:bad + 6], observed=log[bad:bad + 6])
    return tuple(log)


def ids_cases():
    for steps in ([1] * 10, [10], [3, 1, 6]):
        for k in ID_KINDS:
            yield {'leg': 'ids', 'kind': 'ids', 'which': [k], 'prios': [0], 'steps': steps, 'horizon': 10}
            yield {'leg': 'ids', 'kind': 'ids', 'which': ['str', k] if k != 'str' else ['str', 'int'], 'prios': [2, 1],
                   'steps': steps, 'horizon': 10, 'shift': 1}
        yield {'leg': 'ids', 'kind': 'ids', 'which': ID_KINDS, 'prios': list(range(len(ID_KINDS), 0, -1)), 'steps': steps,
               'horizon': 10}
        yield {'leg': 'ids', 'kind': 'ids', 'which': ID_KINDS, 'prios': list(range(len(ID_KINDS))), 'steps': steps,
               'horizon': 10, 'shift': 3}
        for which, prios in ((['d1', 'd2'], [2, 1]), (['d1', 'd2'], [1, 1]), (['d1', 'd2', 'd3'], [1, 2, 3])):
            yield {'leg': 'ids', 'kind': 'value_equal', 'which': which, 'prios': prios, 'steps': steps, 'horizon': 10}
    # ... and one of the equal systems is removed between two timesteps: IT stops running, its twins carry on
    for which, prios in ((['d1', 'd2'], [2, 1]), (['d1', 'd2'], [1, 1]), (['d1', 'd2', 'd3'], [1, 2, 3]),
                         (['d1', 'd2', 'd3'], [0, 0, 0])):
        for k in which:
            for at in (0, 2, 5):
                yield {'leg': 'ids', 'kind': 'value_equal', 'which': which, 'prios': prios, 'steps': [1] * 10, 'horizon': 10,
                       'remove': [k, at]}


ROUND_N = [1000, 1024, 2048, 4096, 8192, 10000, 16384, 20000, 30000, 32768, 50000, 65536, 100000]


def round_n_case(case):
    """execute(n) for round n (powers of two and of ten): the same as n single steps - clock n, an every-step system
    ran n times (last at n - 1), a system with a window at the very end ran in it."""
    reset_library()
    model = new_model(seed=1)
    n = case['n']
    count = [0, None]
    tail = []

    class Every(Core.System):
        def execute(self):
            count[0] += 1
            count[1] = self.model.systems.timestep

    class Tail(Core.System):
        def execute(self):
            tail.append(self.model.systems.timestep)
    model.systems.add_system(Every('every', model))
    model.systems.add_system(Tail('tail', model, start=n - 3, end=n + 5, frequency=2))
    if case.get('pre'):
        model.execute(case['pre'])
    model.execute(n)
    total = n + case.get('pre', 0)
    want_tail = [t for t in range(total) if active(t, n - 3, n + 5, 2)]
    got = [model.timestep, model.systems.timestep, count[0], count[1], tail]
    want = [total, total, total, total - 1, want_tail]
    if got != want:
        raise Violation(f'execute({n}){" after execute(%d)" % case["pre"] if case.get("pre") else ""}: clock, clock, runs of '
                        f'an every-step system, its last timestep, runs of a system due at the end', expected=want,
                        observed=got)
    return n


def round_n_cases(tier):
    for n in ROUND_N if tier == 'quick' else ROUND_N + [131072, 200000, 262144]:
        yield {'leg': 'round_n', 'n': n}
    for n in (10000, 20000, 4096):
        yield {'leg': 'round_n', 'n': n, 'pre': 3}


# ---------------------------------------------------------------------------------------------------------
# multi-system BFS
# ---------------------------------------------------------------------------------------------------------

class World:
    pass


class Multi:
    def __init__(self, horizon):
        self.horizon = horizon
        self.config = {'horizon': horizon}
        self.cn = Canon()
        self.spec = {p[0]: p for p in POOL}
        self.ids = sorted({p[1] for p in POOL if p[0] != 'w5'}) + ['zz']
        self._adds = [['add', p[0]] for p in POOL if p[0] != 'w5']
        self._rems = [['remove', i] for i in self.ids]
        self._adv = [['execute', 1], ['execute', 2], ['execute', 3], ['execute_systems']]
        self._bad = [['bad', i] for i in range(len(BAD_N))]

    def fresh(self):
        w = World()
        w.model = new_model(seed=1)
        w.log = []
        Rec = make_rec(w.log)
        w.objs = {k: (Rec.Falsy if k in ('w0', 'w5') else Rec)(k, w.model, prio, start, end, freq, sid)
                  for k, sid, prio, start, end, freq in POOL}
        w.objs['sp'].spawn = w.objs['w5']
        w.ref = []        # registered keys in registration order
        w.t = 0
        w.last = ()
        return w

    def ops(self, w):
        ops = list(self._adds) + list(self._rems) + list(self._bad)
        for o in self._adv:
            n = o[1] if o[0] == 'execute' else 1
            if w.t + n <= self.horizon:
                ops.append(o)
        return ops

    def _byid(self, w):
        return {self.spec[k][1]: k for k in w.ref}

    def expected_log(self, w, n):
        """Steps the reference n timesteps (the spawner may register w5 on the way)."""
        out = []
        for t in range(w.t, w.t + n):
            order = sorted(range(len(w.ref)), key=lambda i: (-self.spec[w.ref[i]][2], i))
            todo = [w.ref[i] for i in order]
            for k in todo:
                _, _, _, start, end, freq = self.spec[k]
                if active(t, start, end, freq):
                    out.append((t, k))
                    if k == 'sp' and t == SPAWN_AT and 'w5' not in w.ref:
                        w.ref.append('w5')     # first due at timestep 4, so "this timestep or the next" is moot
        return out

    def apply(self, w, op, twin=True):
        kind = op[0]
        if kind == 'add':
            sid = self.spec[op[1]][1]
            if sid in self._byid(w):
                before = public_snapshot(w.model)
                try:
                    w.model.systems.add_system(w.objs[op[1]])
                except KeyError:
                    if public_snapshot(w.model) != before:
                        raise Violation(f'rejected registration of {op[1]} changed the scheduler')
                    return
                raise Violation('duplicate registration accepted')
            w.model.systems.add_system(w.objs[op[1]])
            w.ref.append(op[1])
            return
        if kind == 'remove':
            byid = self._byid(w)
            if op[1] in byid:
                w.model.systems.remove_system(op[1])
                w.ref.remove(byid[op[1]])
                return
            try:
                w.model.systems.remove_system(op[1])
            except Core.SystemNotFoundError:
                return
            raise Violation(f'removal of unknown system {op[1]} accepted')
        if kind == 'bad':
            n = BAD_N[op[1]]
            before = public_snapshot(w.model)
            n0 = len(w.log)
            want = ValueError if (type(n) is int) else TypeError
            for how, call in (('execute({!r})', lambda: w.model.execute(n)), ('execute(n={!r})', lambda: w.model.execute(n=n))):
                what = how.format(n)
                try:
                    call()
                except (TypeError, ValueError) as e:
                    if type(e) is not want:
                        raise Violation(f'{what} raised {type(e).__name__}', expected=want.__name__,
                                        observed=type(e).__name__)
                    if public_snapshot(w.model) != before or len(w.log) != n0:
                        raise Violation(f'rejected {what} changed the model or ran a system')
                    continue
                raise Violation(f'{what} was accepted', expected=want.__name__, observed='no exception')
            return
        n = op[1] if kind == 'execute' else 1
        exp = self.expected_log(w, n)
        n0 = len(w.log)
        if kind == 'execute':
            if n % 2:
                w.model.execute(n=n)      # the count passed by keyword
            else:
                w.model.execute(n)
        else:
            w.model.systems.execute_systems()
        got = w.log[n0:]
        w.last = tuple(got)
        if got != exp:
            raise Violation(f'{op}: activations differ from the window predicate / C01 order',
                            expected=exp, observed=got)
        w.t += n
        if w.model.timestep != w.t or w.model.systems.timestep != w.t:
            raise Violation(f'{op}: clock is not +{n}', expected=w.t,
                            observed=[w.model.timestep, w.model.systems.timestep])

    def check(self, w):
        if w.model.timestep != w.model.systems.timestep or w.model.timestep != w.t:
            raise Violation('model.timestep != scheduler timestep', expected=w.t,
                            observed=[w.model.timestep, w.model.systems.timestep])

    def canon(self, w):
        return self.cn(w.model, [w.objs[p[0]] for p in POOL])

    def refstate(self, w):
        return (tuple(w.ref), w.t)

    def outcome(self, w):
        return w.last


class MultiWithTwin(Multi):
    """execute(n) must reach the same canonical state as n single steps (differential oracle)."""

    def apply(self, w, op, twin=True):
        if op[0] == 'execute' and op[1] > 1 and twin:
            hist = list(w.hist)
            super().apply(w, op)
            tw = Multi.fresh(self)
            tw.hist = []
            for p in hist:
                Multi.apply(self, tw, p)
            for _ in range(op[1]):
                Multi.apply(self, tw, ['execute', 1])
            if Multi.canon(self, tw) != Multi.canon(self, w) or tw.log != w.log:
                raise Violation(f'execute({op[1]}) is not equivalent to {op[1]} single steps',
                                expected=tw.log, observed=w.log)
        else:
            super().apply(w, op)
        w.hist.append(op)

    def fresh(self):
        w = super().fresh()
        w.hist = []
        return w


# the cheap legs run once more under the runner's ambient configurations (python -O, other logger levels)
AMBIENT_LEGS = True


def run(ctx):
    cases = list(sweep_cases(ctx.tier))
    size = max(1, len(cases) // (ctx.procs * 4))
    chunks = [cases[i:i + size] for i in range(0, len(cases), size)]
    par.pmap(ctx, sweep_chunk, chunks, procs=ctx.procs)
    ctx.sample(cases[0])
    ctx.sample(cases[len(cases) // 2])
    ctx.leg('window_sweep', configurations=len(cases), horizon=cases[0]['horizon'], exhaustive_product=True)
    if not ctx.violations and not ctx.small:
        for steps in (5000,) if ctx.tier == 'quick' else (5000, 70000):
            case = {'leg': 'long_run', 'steps': steps}
            ctx.traces += 1
            try:
                ctx.transitions += hbfs._guard(long_run_case, case)
            except Violation as v:
                ctx.report(case, v)
        ctx.leg('long_run', note='5000 (thorough also 70000) timesteps, then a closed window is reopened')
    if not ctx.violations:
        nf = 0
        for tc in (0, 1, 2, 3):
            for pos in ('first', 'mid', 'last'):
                for req in FINAL_REQUESTS:
                    case = {'leg': 'final_step', 'tc': tc, 'pos': pos, 'request': req}
                    ctx.traces += 1
                    nf += 1
                    try:
                        ctx.outcome(hbfs._guard(final_step_case, case))
                        ctx.transitions += tc + 1
                    except Violation as v:
                        ctx.report(case, v)
                        if ctx.full():
                            return
        ctx.leg('final_step', cases=nf, note='the request during which a system completes the model, in every phrasing')
        nr = 0
        for case in replaced_cases():
            ctx.traces += 1
            nr += 1
            try:
                ctx.outcome(hbfs._guard(replaced_case, case))
                ctx.transitions += 12
            except Violation as v:
                ctx.report(case, v)
                if ctx.full():
                    return
        ctx.leg('replaced', cases=nr, note='a supervisor replaces a system under its id in the middle of a timestep')
        nl = 0
        for case in live_priority_cases():
            ctx.traces += 1
            nl += 1
            try:
                ctx.outcome(hbfs._guard(live_priority_case, case))
                ctx.transitions += 9
            except Violation as v:
                ctx.report(case, v)
                if ctx.full():
                    return
        for gen, fn, name in ((manager_swap_cases, manager_swap_case, 'manager_swap'), (rewind_cases, rewind_case, 'rewind'),
                              (interrupted_cases, interrupted_case, 'interrupted'), (tuned_cases, tuned_case, 'tuned'),
                              (lambda: ({'leg': 'wrapped_manager', 'n': n, 'freq': f} for n in (1, 2, 9) for f in (1, 2)),
                               wrapped_manager_case, 'wrapped_manager'), (ids_cases, ids_case, 'ids'),
                              (lambda: () if ctx.small else round_n_cases(ctx.tier), round_n_case, 'round_n')):
            nn = 0
            for case in gen():
                ctx.traces += 1
                nn += 1
                try:
                    ctx.outcome(hbfs._guard(fn, case))
                    ctx.transitions += 6
                except Violation as v:
                    ctx.report(case, v)
                    if ctx.full():
                        return
            ctx.leg(name, cases=nn)
        ctx.leg('live_priority', cases=nl, note='priority attribute changed while registered, then removed and registered again')
    if ctx.violations or ctx.small:
        return
    h = MultiWithTwin(6 if ctx.tier == 'quick' else 9)
    r = hbfs.explore(ctx, h, 'multi', max_depth=40, procs=ctx.procs)
    ctx.leg('multi', **r)
    if not r.get('fixpoint'):
        ctx.cap('multi: fixpoint not reached')


def replay(case):
    if case['leg'] == 'long_run':
        hbfs._guard(long_run_case, case)
        return
    if case['leg'] == 'final_step':
        hbfs._guard(final_step_case, case)
        return
    if case['leg'] == 'replaced':
        hbfs._guard(replaced_case, case)
        return
    if case['leg'] == 'live_priority':
        hbfs._guard(live_priority_case, case)
        return
    if case['leg'] == 'manager_swap':
        hbfs._guard(manager_swap_case, case)
        return
    if case['leg'] == 'interrupted':
        hbfs._guard(interrupted_case, case)
        return
    if case['leg'] == 'wrapped_manager':
        hbfs._guard(wrapped_manager_case, case)
        return
    if case['leg'] == 'tuned':
        hbfs._guard(tuned_case, case)
        return
    if case['leg'] == 'ids':
        hbfs._guard(ids_case, case)
        return
    if case['leg'] == 'round_n':
        hbfs._guard(round_n_case, case)
        return
    if case['leg'] == 'rewind':
        hbfs._guard(rewind_case, case)
        return
    if case['leg'] == 'window_sweep':
        hbfs._guard(sweep_case, case)
    else:
        hbfs.replay_case(MultiWithTwin(case['config']['horizon']), case)
