"""C10 - neighbourhood queries return exactly the metric ball clipped to the grid.

E2: every shape x every centre (three input representations, fractional in-cell offsets) x every radius x
Moore/von Neumann x return type x centre inclusion x entry point, compared with a filter of the world's own
position table by Chebyshev / Manhattan distance.
"""
import collections
import enum
import itertools
import math
import sys

import numpy as np

from mc.engine import hbfs, par
from mc.engine.report import Violation
from mc.engine.seams import reset_library, new_model

import ECAgent.Core as Core
import ECAgent.Environments as Envs

# in-cell offsets of a position component; the last one is the largest double below 1 (ten steps of 0.1 get there)
OFFSETS = (0, 0.25, 0.75, 0.9999999999999999)

META = {
    'rule': 'full product shape x centre cell x centre form x radius x kind x ret_type x incl_center x entry point; '
            'distinct_nontrivial counts distinct (shape, centre, radius, kind) reference neighbourhoods',
    'alphabet': {'generic shapes': 'extents {0..3}^3 quick, {0..4}^3 thorough', 'line': 'width 1..5',
                 '2-D grid': '(1,1),(3,2),(2,4),(4,4)',
                 'centre forms': 'cell id, 3-tuple, PositionComponent (one object moved from cell to cell) with in-cell offsets '
                                 '0, 0.25, 0.75 and the largest double below 1',
                 'large worlds': '7x7x7 and 20x18 (thorough 9x8x7, line 600): 27 / 9 / 3 centres (corners, face centres, '
                                 'centre, one off-centre) with radii that give clipped blocks of several hundred cells',
                 'repeat': 'every answer is vandalised by the caller and the same question asked again',
                 'radius': '0 .. max extent + 1, 2^31, sys.maxsize', 'kinds': ['moore', 'neumann'], 'ret_type': ['int', 'tuple'],
                 'incl_center': [False, True],
                 'entry points': ['get_moore_neighbours / get_neumann_neighbours', 'get_neighbours(mode=...)']},
    'bounds': {'quick': '64 generic shapes + 5 lines + 4 grids', 'thorough': '125 generic shapes + 8 lines + 9 grids'},
    'assumptions': ['wrap_env=False (the property excludes wrapping)',
                    'a zero extent denotes a single layer at coordinate 0'],
}


def shapes(tier):
    n = 4 if tier == 'quick' else 5
    for d in itertools.product(range(n), repeat=3):
        yield ('discrete', list(d))
    for w in range(1, 6 if tier == 'quick' else 9):
        yield ('line', [w])
    grids = [(1, 1), (3, 2), (2, 4), (4, 4)]
    if tier == 'thorough':
        grids += [(5, 1), (1, 5), (3, 3), (5, 4), (2, 2)]
    for g in grids:
        yield ('grid', list(g))


def mk(model, kind, dims, flag='default'):
    # falsy wrap flags that are not the object False: still a non-wrapping world
    kw = {} if flag == 'default' else {'wrap_env': {'none': None, 'zero': 0, 'np_false': np.False_, 'switched_off': True}[flag]}
    if kind == 'discrete':
        world = Envs.DiscreteWorld(model, *dims, **kw)
    elif kind == 'line':
        world = Envs.LineWorld(model, dims[0], **kw)
    else:
        world = Envs.GridWorld(model, *dims, **kw)
    if flag == 'switched_off':
        world.wrap_env = False      # built as a torus, wrapping switched off afterwards: a world without wrapping from now on
    return world


def faults(world, ncells):
    """Queries that are refused (unsupported return type, centre that is no cell, unknown neighbourhood kind); whatever
    a refused query leaves behind must not show in the answers that follow."""
    n = 0
    for call in (lambda: world.get_neumann_neighbours((0, 0), 1),
                 lambda: world.get_moore_neighbours(0, 1, False, dict),
                 lambda: world.get_moore_neighbours(-ncells - 3, 1),
                 lambda: world.get_neighbours(0, radius=1, mode='hexagonal'),
                 lambda: world.get_neumann_neighbours(ncells + 7, 1),
                 lambda: world.get_neumann_neighbours('centre', 2),
                 lambda: world.get_neumann_neighbours(0, 1, True, str)):      # the last one is refused for certain
        n += 1
        try:
            call()
        except Exception:      # noqa - refused, as expected; an accepted odd query is not judged here
            pass
    return n


_Cell = collections.namedtuple('_Cell', 'x y z')


def check_shape(case):
    reset_library()
    kind, dims = case['kind'], case['dims']
    if sum(dims) % 3 == 0 or case.get('faults'):
        # an EARLIER world of the very same shape whose owner edited its position table in place (and dropped the world)
        ghost = mk(new_model(seed=9), kind, dims, case.get('flag', 'default'))
        ncell = len(ghost.cells)
        ghost.cells.at[0, 'pos'] = (7, 7, 7)
        if ncell > 1:
            a_, b_ = ghost.cells.at[ncell - 1, 'pos'], ghost.cells.at[ncell // 2, 'pos']
            ghost.cells.at[ncell - 1, 'pos'], ghost.cells.at[ncell // 2, 'pos'] = b_, a_
        del ghost
    model = new_model(seed=1)
    world = mk(model, kind, dims, case.get('flag', 'default'))
    # other grid worlds alive in the same process, built after this one and queried in between
    others = [Envs.GridWorld(new_model(seed=2), 4, 3), Envs.DiscreteWorld(new_model(seed=3), 2, 3, 4)]
    if sum(dims) % 2 == 1 or case.get('big'):
        # cell components (named before and after 'pos' in the alphabet, tuple-valued and scalar) have no bearing on
        # which cells are neighbours
        world.add_cell_component('elevation', lambda pos, cells: (9, 9, 9))
        world.add_cell_component('Flow', lambda pos, cells: 3)
        world.add_cell_component('zone', lambda pos, cells: (0, 0, 0))
    # the reference numbering of the cells is computed here (x fastest, then y, then z), not read from the world
    ext_ = [max(e, 1) for e in (list(dims) + [0] * (3 - len(dims)))]
    table = [(x, y, z) for z in range(ext_[2]) for y in range(ext_[1]) for x in range(ext_[0])]
    if case.get('sorted'):
        # the user ranks the cells by a component, in place: every cell keeps its id as the row label
        world.add_cell_component('rank', lambda pos, cells: -(7 * pos[0] + 3 * pos[1] + pos[2]) % 5)
        world.cells.sort_values('rank', inplace=True, kind='stable')
    d3 = list(dims) + [0] * (3 - len(dims))
    rmax = max(max(d3), 1) + 1
    centres = list(enumerate(table))
    # "unbounded" radii: the whole grid ('e5000' = 10**5000, an integer with more digits than Python turns into text)
    radii = list(range(0, rmax + 1)) + [2 ** 31, sys.maxsize, 'e5000']
    if case.get('big'):
        # large worlds: corners, face centres, the centre and one off-centre cell, radii that make big clipped blocks
        ext = [max(e, 1) for e in d3]
        picks = set()
        for cx in (0, ext[0] // 2, ext[0] - 1):
            for cy in (0, ext[1] // 2, ext[1] - 1):
                for cz in (0, ext[2] // 2, ext[2] - 1):
                    picks.add((cx, cy, cz))
        picks.add((min(1, ext[0] - 1), min(2, ext[1] - 1), min(3, ext[2] - 1)))
        centres = [(i, p) for i, p in centres if p in picks]
        radii = case['radii']
    index_of = {p: i for i, p in enumerate(table)}
    narg = {'discrete': 3, 'line': 1, 'grid': 2}[kind]
    # a resident agent: the world moves it (move_to / move), then its position component is edited directly - as
    # models do - and handed in as the centre
    resident = Core.Agent('resident', model)
    world.add_agent(resident)
    prev = table[-1]
    agent = Core.Agent('probe', model)
    # ONE position component object per offset is moved from centre to centre (as an agent's own component would
    # be), so an answer remembered for "this component" instead of "this cell" shows up
    movers = {off: Envs.PositionComponent(agent, model, 0, 0, 0) for off in OFFSETS}
    only = case.get('only')
    calls = 0
    balls = set()
    for cid, centre in centres:
        for o in others:
            o.get_moore_neighbours(cid % 12, 1)
            o.get_neumann_neighbours((cid % 2, cid % 3, 0), 2, True, tuple)
        for r_name in radii:
            r = 10 ** 5000 if r_name == 'e5000' else r_name
            if case.get('faults'):
                calls += faults(world, len(table))      # refused queries right before every Moore query
            for metric in ('moore', 'neumann'):
                if metric == 'moore':
                    ball = [p for p in table if max(abs(p[0] - centre[0]), abs(p[1] - centre[1]),
                                                    abs(p[2] - centre[2])) <= r]
                else:
                    ball = [p for p in table if abs(p[0] - centre[0]) + abs(p[1] - centre[1]) +
                            abs(p[2] - centre[2]) <= r]
                balls.add((cid, r_name, metric, len(ball)))
                for incl in (False, True):
                    exp_t = [p for p in ball if incl or p != centre]
                    exp_i = [index_of[p] for p in exp_t]
                    forms = [('id', cid), ('tuple', centre)]
                    if case.get('leg') == 'flag' or case.get('faults'):
                        # centres given as a named tuple (a tuple), cell ids given as an IntEnum member (an int)
                        forms += [('namedtuple', _Cell(*centre)), ('enum_id', enum.IntEnum('CellId', {'here': cid}).here)]
                    # the world puts the resident somewhere else first; then its component is set to the centre by hand
                    if incl:
                        world.move_to(resident, *prev[:narg])
                    else:
                        world.move(resident, *[a - b for a, b in zip(prev, resident[Envs.PositionComponent].xyz())][:narg])
                    rpc = resident[Envs.PositionComponent]
                    rpc.x, rpc.y, rpc.z = centre[0] + 0.25, centre[1] + 0.25, centre[2] + 0.25
                    prev = centre
                    forms.append(('resident', rpc))
                    for off in (OFFSETS if not case.get('huge') else (0.25,)):
                        pc = movers[off]
                        if off > 0.99:      # the largest double still inside the cell (c + 0.999.. would round up)
                            pc.x, pc.y, pc.z = (math.nextafter(centre[0] + 1, 0), math.nextafter(centre[1] + 1, 0),
                                                math.nextafter(centre[2] + 1, 0))
                        else:
                            pc.x, pc.y, pc.z = centre[0] + off, centre[1] + off, centre[2] + off
                        forms.append(('pc%s' % off, pc))
                    if case.get('leg') == 'flag' or case.get('faults'):
                        # exact coordinates a hair below the next cell - closer than a double can tell (Fraction)
                        from fractions import Fraction
                        fpc = Envs.PositionComponent(agent, model, 0, 0, 0)
                        fpc.x, fpc.y, fpc.z = (Fraction(centre[0] + 1) - Fraction(1, 2 ** 70), Fraction(centre[1] + 1) - Fraction(1, 2 ** 70),
                                               Fraction(centre[2] + 1) - Fraction(1, 2 ** 70))
                        forms.append(('pc_fraction', fpc))
                    for fname, cpos in forms:
                        for entry in ('specific', 'generic', 'generic_positional'):
                            if case.get('huge') and entry == 'generic_positional':
                                continue
                            for ret in ('int', 'tuple'):
                                q = [cid, r_name, metric, incl, fname, entry, ret]
                                if only is not None and q != only:
                                    continue
                                calls += 1
                                rt = int if ret == 'int' else tuple
                                held = (cpos.x, cpos.y, cpos.z) if hasattr(cpos, 'xyz') else None
                                if entry == 'specific':
                                    fn = world.get_moore_neighbours if metric == 'moore' else \
                                        world.get_neumann_neighbours
                                    got = fn(cpos, r, incl, rt)
                                elif entry == 'generic_positional':
                                    got = world.get_neighbours(cpos, r, incl, rt, metric)
                                else:
                                    got = world.get_neighbours(cpos, radius=r, incl_center=incl, ret_type=rt,
                                                               mode=metric)
                                exp = exp_i if ret == 'int' else exp_t
                                if held is not None and [(type(v), v) for v in (cpos.x, cpos.y, cpos.z)] != \
                                        [(type(v), v) for v in held]:
                                    # a query reads the position it is given (an agent's own component): it stays as it was
                                    raise Violation(f'{metric} neighbourhood query (centre given as {fname}, via {entry}) changed '
                                                    f'the position component it was handed', expected=[repr(v) for v in held],
                                                    observed=[repr(v) for v in (cpos.x, cpos.y, cpos.z)])
                                if fname in ('id', 'pc0') and isinstance(got, list):
                                    # the caller may do what it likes with the answer: ask again afterwards
                                    got.reverse()
                                    got.append('junk')
                                    if entry == 'specific':
                                        got = fn(cpos, r, incl, rt)
                                    elif entry == 'generic_positional':
                                        got = world.get_neighbours(cpos, r, incl, rt, metric)
                                    else:
                                        got = world.get_neighbours(cpos, radius=r, incl_center=incl, ret_type=rt, mode=metric)
                                if not isinstance(got, list) or [_n(v) for v in got] != exp:
                                    raise Violation(
                                        f'{metric} neighbourhood of cell {centre} (given as {fname}) radius {r_name} '
                                        f'incl_center={incl} ret_type={ret} via {entry} entry point on shape {dims}',
                                        expected=exp, observed=got if isinstance(got, list) else repr(got))
    return calls, (kind, tuple(dims), len(balls))


def large_unbounded_case(case):
    """A world of 65536 cells and more, the centre given as a cell id, radii up to the largest machine integers: the
    neighbourhood is the whole grid (minus the centre)."""
    reset_library()
    world = mk(new_model(seed=1), case['kind'], case['dims'])
    d3 = list(case['dims']) + [0] * (3 - len(case['dims']))
    n = max(d3[0], 1) * max(d3[1], 1) * max(d3[2], 1)
    q = 0
    for cid in (0, n // 2 + 7, n - 1):
        for r in (sys.maxsize, 2 ** 63, 2 ** 40):
            for incl in (False, True):
                got = world.get_moore_neighbours(cid, r, incl, int)
                q += 1
                want = n if incl else n - 1
                if not isinstance(got, list) or len(got) != want or got[0] != (0 if (incl or cid != 0) else 1) or \
                        got[-1] != (n - 1 if (incl or cid != n - 1) else n - 2) or (not incl and cid in (got[cid - 1:cid + 1])):
                    raise Violation(f'moore neighbourhood of cell id {cid} radius {r} incl_center={incl} on shape {case["dims"]} '
                                    f'({n} cells): the whole grid is within reach', expected=want,
                                    observed=len(got) if isinstance(got, list) else repr(got))
    return q


def large_window_case(case):
    """Genuinely three-dimensional windows of 65536 cells and more (whole-grid and clipped blocks, both metrics): the
    cells in range, in ascending cell order.  Reference: numbering x fastest, then y, then z, computed here."""
    reset_library()
    w, h, d = case['dims']
    world = mk(new_model(seed=1), 'discrete', case['dims'])
    cx, cy, cz = case['centre']
    r = case['r']
    zz, yy, xx = np.meshgrid(np.arange(d), np.arange(h), np.arange(w), indexing='ij')
    ids = (zz * h + yy) * w + xx
    if case['metric'] == 'moore':
        inside = np.maximum(np.maximum(abs(xx - cx), abs(yy - cy)), abs(zz - cz)) <= r
    else:
        inside = (abs(xx - cx) + abs(yy - cy) + abs(zz - cz)) <= r
    q = 0
    for incl in (False, True):
        keep = inside.copy()
        if not incl:
            keep[cz, cy, cx] = False
        exp = ids[keep]                      # boolean indexing walks the array in C order: ascending ids
        fn = world.get_moore_neighbours if case['metric'] == 'moore' else world.get_neumann_neighbours
        for form in ('tuple', 'id'):
            centre = (cx, cy, cz) if form == 'tuple' else int((cz * h + cy) * w + cx)
            got = fn(centre, r, incl, int)
            q += 1
            if not isinstance(got, list) or len(got) != len(exp) or not np.array_equal(np.asarray(got, dtype=np.int64), exp):
                k = next((i for i, (a, b) in enumerate(zip(got, exp.tolist())) if a != b), min(len(got), len(exp)))
                raise Violation(f'{case["metric"]} neighbourhood of cell {(cx, cy, cz)} (given as {form}) radius {r} '
                                f'incl_center={incl} on shape {case["dims"]}: {len(exp)} cells in ascending order expected, '
                                f'first difference at position {k}', expected=exp[k:k + 5].tolist(), observed=got[k:k + 5])
        got_t = fn((cx, cy, cz), r, incl, tuple)
        q += 1
        exp_t = list(zip(xx[keep].tolist(), yy[keep].tolist(), zz[keep].tolist()))
        if [_n(v) for v in got_t] != exp_t:
            raise Violation(f'{case["metric"]} neighbourhood of cell {(cx, cy, cz)} radius {r} incl_center={incl} on shape '
                            f'{case["dims"]} as coordinates: differs from the cells in range in ascending cell order',
                            expected=len(exp_t), observed=len(got_t))
    return q


def large_window_cases():
    for dims, centre, r in (([41, 41, 41], (20, 20, 20), 20), ([50, 45, 40], (25, 22, 20), 30), ([50, 45, 40], (0, 0, 0), 42),
                            ([50, 45, 40], (49, 44, 39), 43), ([40, 45, 50], (20, 22, 25), 21), ([64, 32, 33], (0, 31, 0), 70)):
        for metric in ('moore', 'neumann'):
            yield {'leg': 'large_window', 'dims': dims, 'centre': list(centre), 'r': r if metric == 'moore' else 3 * r,
                   'metric': metric}


def _n(v):
    if isinstance(v, tuple):
        return tuple(int(x) if x == int(x) else x for x in v)
    return v


# ---------------------------------------------------------------------------------------------------------
# two callers: a second query cuts into the first one at every line of library code it executes
# ---------------------------------------------------------------------------------------------------------

TWO_WORLDS = {'grid4x3': ('grid', [4, 3]), 'disc3x2x2': ('discrete', [3, 2, 2]), 'line5': ('line', [5])}
# (entry, centre form, centre cell index, radius, incl_center, ret_type)
TWO_QUERIES = [('moore', 'id', 1, 1, False, 'int'), ('neumann', 'tuple', -2, 2, True, 'tuple'),
               ('neumann', 'id', 0, 1, False, 'int'), ('moore', 'tuple', -1, 2, True, 'tuple'),
               ('generic_neumann', 'id', 2, 1, True, 'int'), ('generic_moore', 'tuple', 1, 1, False, 'tuple')]


def _two_query(world, table, q):
    entry, form, ci, r, incl, ret = q
    centre = table[ci]
    cpos = table.index(centre) if form == 'id' else centre
    rt = int if ret == 'int' else tuple
    metric = entry.split('_')[-1]
    if metric == 'moore':
        ball = [p for p in table if max(abs(p[i] - centre[i]) for i in range(3)) <= r]
    else:
        ball = [p for p in table if sum(abs(p[i] - centre[i]) for i in range(3)) <= r]
    exp_t = [p for p in ball if incl or p != centre]
    exp = exp_t if ret == 'tuple' else [table.index(p) for p in exp_t]
    if entry == 'moore':
        call = lambda: world.get_moore_neighbours(cpos, r, incl, rt)       # noqa
    elif entry == 'neumann':
        call = lambda: world.get_neumann_neighbours(cpos, r, incl, rt)     # noqa
    else:
        call = lambda: world.get_neighbours(cpos, radius=r, incl_center=incl, ret_type=rt, mode=metric)      # noqa
    return call, exp


def two_callers_case(case):
    """Two neighbourhood queries on the same world by two threads, the second cutting into the first at every line of
    library code the first one executes (or at the single point `k` when replaying): both get their own answer."""
    from mc.engine import preempt
    kind, dims = TWO_WORLDS[case['world']]
    qa, qb = TWO_QUERIES[case['a']], TWO_QUERIES[case['b']]
    expected = {}

    def make():
        reset_library()
        world = mk(new_model(seed=1), kind, dims)
        table = [tuple(p) for p in world.cells['pos']]
        fa, expected['a'] = _two_query(world, table, qa)
        if case.get('world_b'):
            # the second caller works on ANOTHER world of another shape (scratch state shared by all worlds of the process)
            kind_b, dims_b = TWO_WORLDS[case['world_b']]
            world_b = mk(new_model(seed=2), kind_b, dims_b)
            table_b = [tuple(p) for p in world_b.cells['pos']]
            fb, expected['b'] = _two_query(world_b, table_b, qb)
        else:
            fb, expected['b'] = _two_query(world, table, qb)
        return fa, fb

    def judge(k, box_a, box_b):
        for who, box, q in (('first', box_a, qa), ('second', box_b, qb)):
            exp = expected['a' if who == 'first' else 'b']
            got = box.value
            if box.error is not None or not isinstance(got, list) or [_n(v) for v in got] != exp:
                raise Violation(f'two callers on {"one " + case["world"] + " world" if not case.get("world_b") else "the worlds " + case["world"] + " and " + case["world_b"]}: the {who} query {q} gave a wrong answer when the '
                                f'second query {qb} cut into the first {qa} at line event {k}', expected=exp,
                                observed=repr(box.error) if box.error is not None else got)
    n = 0
    if 'k' in case:
        fa, fb = make()
        box_a, box_b, _ = preempt.run_schedule(fa, fb, case['k'])
        judge(case['k'], box_a, box_b)
        return 1
    for item in preempt.explore(make):
        if item[0] == 'n':
            continue
        k, box_a, box_b, _ = item
        n += 1
        try:
            judge(k, box_a, box_b)
        except Violation as v:
            v.case_k = k
            raise
    return n


def two_callers_fn(ctx, case):
    ctx.traces += 1
    try:
        n = hbfs._guard(two_callers_case, case)
        ctx.transitions += n
        ctx.states += n
        ctx.outcome(('two', case['world'], case['a'], case['b'], n))
    except Violation as v:
        c = dict(case)
        if hasattr(v, 'case_k'):
            c['k'] = v.case_k
        ctx.report(c, v)


def chunk_fn(ctx, chunk):
    for case in chunk:
        ctx.traces += 1
        ctx.states += 1
        try:
            q, out = hbfs._guard(check_shape, case)
            ctx.transitions += q
            ctx.outcome(out)
        except Violation as v:
            # narrow the replay case to the single failing query
            ctx.report(case, v)
            if ctx.full():
                return


# the cheap legs run once more under the runner's ambient configurations (python -O, other logger levels)
AMBIENT_LEGS = True


def run(ctx):
    cases = [{'leg': 'shape', 'kind': k, 'dims': d} for k, d in shapes(ctx.tier)]
    cases += [{'leg': 'big', 'kind': 'discrete', 'dims': [7, 7, 7], 'big': True, 'radii': [3, 4, 7]},
              {'leg': 'big', 'kind': 'grid', 'dims': [20, 18], 'big': True, 'radii': [8, 9, 21]},
              # windows of more than 4096 cells around off-centre cells
              {'leg': 'big', 'kind': 'grid', 'dims': [100, 90], 'big': True, 'huge': True, 'radii': [45]},
              {'leg': 'big', 'kind': 'discrete', 'dims': [18, 17, 19], 'big': True, 'huge': True, 'radii': [9]},
              # an axis longer than 2**15 cells: centres at its far end
              {'leg': 'big', 'kind': 'line', 'dims': [40000], 'big': True, 'huge': True, 'radii': [2]}]
    if ctx.tier == 'thorough':
        cases += [{'leg': 'big', 'kind': 'discrete', 'dims': [9, 8, 7], 'big': True, 'radii': [3, 4, 5, 9]},
                  {'leg': 'big', 'kind': 'line', 'dims': [600], 'big': True, 'radii': [1, 150, 300, 601]}]
    # refused queries in between (state left behind on an error path), and falsy wrap flags other than False
    extra = [dict(c, leg='faults', faults=True) for c in cases if c['leg'] == 'shape' and max(c['dims']) <= 3 and
             (c['kind'] != 'discrete' or sorted(c['dims']) in ([0, 2, 3], [1, 2, 3], [2, 2, 2], [0, 0, 3], [3, 3, 3]))]
    extra += [dict(c, leg='sorted', sorted=True) for c in cases if c['leg'] == 'shape' and
              c['dims'] in ([3, 2, 2], [0, 3, 2], [4], [4, 4], [3, 2], [2, 3, 3])]
    extra += [dict(c, leg='flag', flag=f) for c in cases if c['leg'] == 'shape' and
              (c['dims'] in ([3, 2, 2], [0, 3, 2], [3], [4, 4], [3, 2])) for f in ('none', 'zero', 'np_false', 'switched_off')]
    cases += extra
    if ctx.small:
        cases = [c for c in cases if c['leg'] in ('shape', 'faults') and max(c['dims']) <= 2]
    cases.sort(key=lambda c: -(max(c['dims'][0], 1) * max((c['dims'] + [1, 1])[1], 1) * max((c['dims'] + [1, 1])[2], 1)))
    par.pmap(ctx, chunk_fn, [[c] for c in cases], procs=ctx.procs)
    for c in (cases[0], cases[len(cases) // 2], cases[-1]):
        ctx.sample(c)
    if not ctx.small and not ctx.violations:
        for case in ({'leg': 'large_unbounded', 'kind': 'grid', 'dims': [260, 256]},
                     {'leg': 'large_unbounded', 'kind': 'line', 'dims': [70000]}):
            ctx.traces += 1
            try:
                ctx.transitions += hbfs._guard(large_unbounded_case, case)
            except Violation as v:
                ctx.report(case, v)
        for case in large_window_cases():
            ctx.traces += 1
            try:
                ctx.transitions += hbfs._guard(large_window_case, case)
            except Violation as v:
                ctx.report(case, v)
                break
    ctx.leg('shapes', shapes=len(cases))
    if not ctx.violations and not ctx.small:
        pairs = [(0, 1), (1, 0), (2, 3), (3, 2), (4, 5), (0, 0), (1, 5), (4, 2)]
        two = [{'leg': 'two_callers', 'world': wn, 'a': a, 'b': b} for wn in TWO_WORLDS for a, b in pairs]
        two += [{'leg': 'two_callers', 'world': wa, 'world_b': wb, 'a': a, 'b': b}
                for wa, wb in (('grid4x3', 'disc3x2x2'), ('disc3x2x2', 'line5'), ('line5', 'grid4x3'), ('disc3x2x2', 'grid4x3'))
                for a, b in ((0, 1), (1, 0), (2, 3), (4, 5), (0, 0))]
        par.pmap(ctx, two_callers_fn, two, procs=ctx.procs)
        ctx.leg('two_callers', pairs=len(two), note='one preemption at every library line of the first query (E5)')


def replay(case):
    if case['leg'] == 'two_callers':
        hbfs._guard(two_callers_case, case)
        return
    if case['leg'] == 'large_window':
        hbfs._guard(large_window_case, case)
        return
    if case['leg'] == 'large_unbounded':
        hbfs._guard(large_unbounded_case, case)
        return
    hbfs._guard(check_shape, case)
