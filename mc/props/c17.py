"""C17 - collectors record faithfully: nothing invented, altered, lost or duplicated.

Leg `agent` (E1): BFS over population changes between and during timesteps for every collector configuration
(composite function x timestep flag x window x priority); the full records list is compared with a reference
after every operation.  Leg `file` (E2 + crash points): every sequence of per-collection record counts x
write_count x window on real files; after every timestep (= every possible stopping point) the file text and the
held records are compared with the reference.
"""
import itertools
import os
import shutil
import tempfile
from sys import maxsize

from mc.engine import hbfs, par
from mc.engine.report import Violation
from mc.engine.seams import Canon, reset_library, new_model

import ECAgent.Core as Core
from ECAgent.Collectors import AgentCollector, FileCollector

INF = 'inf'
WINDOWS = [(0, INF, 1), (1, 3, 2), (2, 2, 1)]
COMPOSITES = ['absent', 'none', 'dict', 'shared']     # shared: one running-totals dict returned (and mutated) every time
QUICK_CONFIGS = [('absent', False, 0, 'default'), ('none', False, 1, 'default'), ('dict', True, 2, 'plus5'),
                 ('absent', True, 0, 'plus5'), ('dict', False, 0, 'default'), ('none', True, 1, 'plus5'),
                 ('shared', False, 0, 'default'), ('shared', True, 1, 'plus5')]

META = {
    'rule': 'agent: BFS over join/leave/step/step-with-mid-timestep-change histories per collector configuration; '
            'file: full product of record-count sequences x write_count x window with a check after every timestep; '
            'distinct_nontrivial counts distinct records lists / file contents observed',
    'alphabet': {'agents': 'a (value 10), b (agentFunc returns None), c (value 30)',
                 'agent ops': 'join(k), leave(k), step, step during which a priority-0 system joins/leaves k',
                 'collector configurations': 'compositeFunc absent | returns None | returns {n: len(agents)}; '
                                             'includeTimstep False/True; window (start,end,frequency) in '
                                             '(0,inf,1),(1,3,2),(2,2,1); priority default (-1) or +5',
                 'file': 'write_count 0..3 (0..5); records per collection in {0,1,2} for every sequence of length 5 (7); '
                         'windows as above; append mode; real temporary files'},
    'bounds': {'quick': 'agent: 6 configurations, agents a,b, depth 4; file: T=5, write_count 0..3',
               'thorough': 'agent: all 36 configurations, agents a,b,c, depth 4, plus the 6 quick configurations with '
                           'a,b to depth 5; file: T=7, write_count 0..5'},
    'assumptions': ['a stop after a timestep is modelled by reading the file and the held records at that moment; '
                    'a crash in the middle of write_records (torn write) is below the granularity the property states',
                    'record strings are unique tokens, so loss, duplication and reordering are all visible'],
}


class V(Core.Component):
    __slots__ = ['value']

    def __init__(self, agent, model, value):
        super().__init__(agent, model)
        self.value = value


AGENT_VALUES = {'a': 10, 'b': None, 'c': 30}


def scheduled(t, win):
    start, end, freq = win
    end = maxsize if end == INF else end
    return start <= t <= end and (t - start) % freq == 0


# ---------------------------------------------------------------------------------------------------------
# AgentCollector
# ---------------------------------------------------------------------------------------------------------

class World:
    pass


class AgentLeg:
    def __init__(self, composite, incl, win_i, prio, keys, late=False, fn='pure'):
        # fn 'draining': the per-agent function is not idempotent (it hands over the next item of the agent's queue, or
        # None every other time): a record holds what ONE evaluation per agent returned
        self.fn = fn
        self.late = late        # the collector is not registered at first; a system registers it during a timestep
        self.composite, self.incl, self.win_i, self.prio = composite, incl, win_i, prio
        self.win = WINDOWS[win_i]
        self.keys = list(keys)
        self.config = {'composite': composite, 'incl': incl, 'win': win_i, 'prio': prio, 'keys': self.keys, 'late': late,
                       'fn': fn}
        self.cn = Canon()
        self._ops = [['step'], ['swap'], ['reinstall']] + ([['step_install'], ['install_swap']] if late else [])
        for k in self.keys:
            self._ops += [['join', k], ['leave', k], ['step_with', 'join', k], ['step_with', 'leave', k]]

    def fresh(self):
        w = World()
        if self.incl:
            # a model class with an attribute of its own called `timestep` (the length of a step, in hours): the
            # timestep stamped into a record is the scheduler's
            class HoursModel(Core.Model):
                timestep = 0.25
            w.model = m = new_model(seed=1, cls=HoursModel)
        else:
            w.model = m = new_model(seed=1)
        w.agents = {}
        for k in self.keys:
            a = Core.Agent(k, m)
            a.add_component(V(a, m, AGENT_VALUES[k]))
            w.agents[k] = a
        w.pending = []
        w.reinstalls = 0
        w.swaps = 0
        w.gone = set()
        w.install_now = False
        w.nested = False

        class Mut(Core.System):
            def execute(self_):
                if w.nested:
                    # the other model is advanced from INSIDE this system's turn (coupled models): whatever follows in
                    # this timestep - the collector included - still runs
                    w.m2.execute()
                    w.nested = False
                if w.install_now:
                    m.systems.add_system(w.col)      # a (burn-in) system installs the collector during a timestep
                    w.install_now = False
                for kind, k in w.pending:
                    if kind == 'join':
                        m.environment.add_agent(w.agents[k])
                    else:
                        m.environment.remove_agent(k)
                del w.pending[:]

        totals = {}

        def shared(agents):
            totals['n'] = len(agents)
            totals['calls'] = totals.get('calls', 0) + 1
            return totals
        w.calls = 0
        comp = {'absent': None, 'none': (lambda agents: None),
                'dict': (lambda agents: {'n': len(agents)}), 'shared': shared}[self.composite]
        start, end, freq = self.win
        kw = {'start': start, 'frequency': freq}
        if end != INF:
            kw['end'] = end
        if self.prio == 'plus5':
            kw['priority'] = 5
        w.fncalls = {k: 0 for k in self.keys}
        w.refcalls = {k: 0 for k in self.keys}

        def draining(a):
            n = w.fncalls[a.id]
            w.fncalls[a.id] = n + 1
            return None if (a[V].value is None or n % 2 == 1) else a[V].value + n
        w.col = AgentCollector(m, draining if self.fn == 'draining' else (lambda a: a[V].value), comp, self.incl, **kw)
        # the collector is registered BEFORE the priority-0 system: with its default priority it must still run
        # after it and observe the state that timestep's systems left behind
        w.installed = not self.late
        if not self.late:
            m.systems.add_system(w.col)
        w.mut = Mut('mut', m, priority=0)
        m.systems.add_system(w.mut)

        w.tail_runs = 0

        class Tail(Core.System):
            def execute(self_):
                w.tail_runs += 1
        m.systems.add_system(Tail('tail', m, priority=-2))      # something that runs after a default-priority collector
        if self.late:
            class Dummy(Core.System):
                def execute(self_):
                    pass
            m.systems.add_system(Dummy('dummy', m, priority=1))      # retired when the collector is swapped in
        w.res = []
        w.t = 0
        w.ref = []
        # a second model with an agent collector of the same id, stepped in lockstep: its records are its own
        w.m2 = new_model(seed=2)
        b = Core.Agent('z', w.m2)
        b.add_component(V(b, w.m2, 99))
        w.m2.environment.add_agent(b)
        w.col2 = AgentCollector(w.m2, lambda a: a[V].value)
        w.m2.systems.add_system(w.col2)
        w.ref2 = []
        return w

    def ops(self, w):
        out = []
        for op in self._ops:
            if op[0] == 'join' and op[1] in w.res:
                continue
            if op[0] == 'leave' and op[1] not in w.res:
                continue
            if op[0] == 'step_with' and ((op[1] == 'join') == (op[2] in w.res)):
                continue
            if op[0] in ('step', 'step_with', 'step_install') and w.t >= 5:
                continue
            if op[0] == 'step_install' and w.installed:
                continue
            if op[0] == 'swap' and w.swaps >= 3:
                continue
            if op[0] == 'reinstall' and (not w.installed or w.reinstalls >= 2):
                continue
            if op[0] in ('join', 'leave', 'step_with') and (op[-1] in w.gone):
                continue         # agents left behind in a replaced environment are not used again
            out.append(op)
        return out

    def _record(self, w, res):
        rec = {}
        if self.incl:
            rec['timestep'] = w.t
        for k in res:
            if self.fn == 'draining':
                n = w.refcalls[k]
                w.refcalls[k] = n + 1
                if AGENT_VALUES[k] is not None and n % 2 == 0:
                    rec[k] = AGENT_VALUES[k] + n
            elif AGENT_VALUES[k] is not None:
                rec[k] = AGENT_VALUES[k]
        if self.composite == 'dict':
            rec['n'] = len(res)
        if self.composite == 'shared':
            w.calls += 1
            rec['n'] = len(res)
            rec['calls'] = w.calls
        return rec

    def apply(self, w, op):
        env = w.model.environment
        if op[0] == 'reinstall':
            # between two timesteps the collector is taken out (its own clean_up) and registered again - same object,
            # same id: from then on it still collects once per scheduled timestep
            w.col.clean_up()
            w.model.systems.add_system(w.col)
            w.reinstalls += 1
        elif op[0] == 'install_swap':
            # between two timesteps a (warm-up) system is retired and the collector registered in its stead: the number
            # of registered systems stays the same
            if not w.installed:
                w.model.systems.remove_system('dummy')
                w.model.systems.add_system(w.col)
                w.installed = True
        elif op[0] == 'swap':
            # the model gets a fresh, empty environment (after the collector was built): collections follow the model
            w.model.environment = Core.Environment(w.model)
            w.gone |= set(w.res)       # whoever was resident stays behind in the abandoned environment
            w.res = []
            w.swaps += 1
        elif op[0] == 'join':
            env.add_agent(w.agents[op[1]])
            w.res.append(op[1])
        elif op[0] == 'leave':
            env.remove_agent(op[1])
            w.res.remove(op[1])
        else:
            before = list(w.res)
            installing = op[0] == 'step_install'
            if installing:
                w.install_now = True
            if op[0] == 'step_with':
                w.nested = True
                w.pending.append((op[1], op[2]))
                if op[1] == 'join':
                    w.res.append(op[2])
                else:
                    w.res.remove(op[2])
            seen_by_collector = before if self.prio == 'plus5' else list(w.res)
            # a collector registered during this timestep may first run now or in the next one (left open, as for any
            # system registered mid-timestep); afterwards it runs like any other
            runs_now = w.installed
            if installing:
                w.installed = True
                w.open_step = True
            if runs_now and scheduled(w.t, self.win):
                rec = self._record(w, seen_by_collector)
                if rec:
                    w.ref.append(rec)
            w.model.execute()
            if getattr(w, 'open_step', False):
                w.open_step = False
                if len(w.col.records) == len(w.ref) + 1 and self.prio != 'plus5' and scheduled(w.t, self.win):
                    rec = self._record(w, list(w.res))
                    if rec and w.col.records[-1] == rec:
                        w.ref.append(rec)        # it already ran in the timestep it was registered in: fine
            w.t += 1
            if w.pending:
                raise Violation('the priority-0 system did not run in this timestep', observed=w.pending)
        if op[0] in ('step', 'step_with', 'step_install'):
            if op[0] != 'step_with':       # step_with: already advanced from inside the priority-0 system's turn
                w.m2.execute()
            elif w.nested:
                raise Violation('the priority-0 system did not run in this timestep')
            w.ref2.append({'z': 99})
        if w.tail_runs != w.t:
            raise Violation(f'{op}: the system queued behind the collector (priority -2) ran {w.tail_runs} times in {w.t} '
                            f'timesteps (config {self.config})', expected=w.t, observed=w.tail_runs)
        if w.col2.records != w.ref2:
            raise Violation(f'{op}: a collector of another model (same collector id) holds foreign records',
                            expected=w.ref2[-2:], observed=w.col2.records[-2:])
        got = w.col.records
        if got != w.ref:
            raise Violation(f'{op}: collector records differ (config {self.config})', expected=w.ref[-3:],
                            observed=got[-3:] if isinstance(got, list) else repr(got))
        if len({id(r) for r in got}) != len(got):
            raise Violation(f'{op}: the records list holds the same record object twice')

    def check(self, w):
        pass      # everything is compared after each operation; the default priority is judged by behaviour only

    def canon(self, w):
        return self.cn(w.model, [w.agents[k] for k in self.keys], w.col, w.mut)

    def refstate(self, w):
        return (tuple(w.res), w.t, repr(w.ref), w.swaps, tuple(sorted(w.gone)), w.installed, tuple(sorted(w.refcalls.items())),
                w.reinstalls)

    def outcome(self, w):
        return repr(w.ref[-2:])


def agent_fn(ctx, item):
    cfg, keys, depth = item
    h = AgentLeg(cfg[0], cfg[1], cfg[2], cfg[3], keys, late=len(cfg) > 4 and cfg[4], fn=cfg[5] if len(cfg) > 5 else 'pure')
    r = hbfs.explore(ctx, h, 'agent', max_depth=depth, procs=1)
    ctx.leg('agent', **r)


# ---------------------------------------------------------------------------------------------------------
# FileCollector
# ---------------------------------------------------------------------------------------------------------

def crowd_case(case):
    """An agent collector over more than a thousand agents, some of which answer None, with agents leaving and joining
    between timesteps: every record holds exactly the answers of that timestep's residents."""
    reset_library()
    n = case['n']
    m = new_model(seed=1)
    agents = []
    for i in range(n):
        a = Core.Agent(f'c{i}', m)
        a.add_component(V(a, m, None if i % 13 == 5 else i * 3))
        agents.append(a)
        m.environment.add_agent(a)
    col = AgentCollector(m, lambda a: a[V].value, lambda ags: {'count': len(ags)}, True)
    m.systems.add_system(col)
    res = list(range(n))
    exp = []
    for t in range(4):
        if t == 1:
            for i in range(0, n, 9):
                m.environment.remove_agent(f'c{i}')
                res.remove(i)
        if t == 2:
            for i in range(0, n, 27):
                m.environment.add_agent(agents[i])
                res.append(i)
        rec = {'timestep': t}
        rec.update({f'c{i}': i * 3 for i in res if i % 13 != 5})
        rec['count'] = len(res)
        exp.append(rec)
        m.execute()
    got = col.records
    if got != exp:
        t = next((k for k, (g, e) in enumerate(zip(got, exp)) if g != e), min(len(got), len(exp)))
        g, e = (got[t] if t < len(got) else {}), (exp[t] if t < len(exp) else {})
        bad = sorted(k for k in set(g) | set(e) if g.get(k, '<absent>') != e.get(k, '<absent>'))[:5]
        raise Violation(f'{n} agents: record of timestep {t} differs from the residents\' answers (keys {bad})',
                        expected={k: e.get(k, '<absent>') for k in bad}, observed={k: g.get(k, '<absent>') for k in bad})
    if any(list(g) != list(e) for g, e in zip(got, exp)):
        raise Violation(f'{n} agents: keys of a record are not in joining order')
    return 4 * n


def late_install_multi_case(case):
    """A warm-up system registers the collector during timestep k of ONE model.execute(n) call: from timestep k+1 on the
    collector records every timestep (whether it already runs in timestep k itself is left open)."""
    reset_library()
    n, k, incl = case['n'], case['k'], case['incl']
    m = new_model(seed=1)
    for key, val in (('a', 10), ('b', 30)):
        a = Core.Agent(key, m)
        a.add_component(V(a, m, val))
        m.environment.add_agent(a)
    col = AgentCollector(m, lambda a: a[V].value, None, incl)

    class Warmup(Core.System):
        def execute(self):
            if self.model.systems.timestep == k:
                self.model.systems.add_system(col)
            if self.model.systems.timestep == k + 1 and case.get('leaver'):
                self.model.environment.remove_agent('a')
    m.systems.add_system(Warmup('warmup', m, priority=5))
    if case.get('split') and k > 0:
        m.execute(k)            # the call in which the collector is registered starts at timestep k
        m.execute(n - k)
    else:
        m.execute(n)

    def rec(t):
        r = {'timestep': t} if incl else {}
        if not (case.get('leaver') and t >= k + 1):
            r['a'] = 10
        r['b'] = 30
        return r
    must = [rec(t) for t in range(k + 1, n)]
    got = list(col.records)
    if got != must and got != [rec(k)] + must:
        raise Violation(f'collector registered by a system during timestep {k} of model.execute({n}): records differ '
                        f'from one record per timestep from {k + 1} on', expected=must, observed=got)
    return len(got)


def file_fault_case(case):
    """The output directory is taken away before one timestep and restored after it: a flush that fails there raises to
    the driver, which carries on.  Whatever happens, text in the file + records still held = everything collected."""
    reset_library()
    counts, wc, fail_t = case['counts'], case['write_count'], case['fail_t']
    tmp = tempfile.mkdtemp(prefix='c17f-')
    try:
        d = os.path.join(tmp, 'out')
        os.mkdir(d)
        path = os.path.join(d, 'log.txt')
        model = new_model(seed=1)
        collected = []

        class Col(FileCollector):
            def collect(self):
                t = self.model.systems.timestep
                for i in range(counts[min(t, len(counts) - 1)]):
                    rec = f't{t}r{i}#{len(collected)};'
                    self.records.append(rec)
                    collected.append(rec)

        col = Col('fc', model, path, write_count=wc)
        model.systems.add_system(col)
        failures = 0
        for step in range(len(counts) + 2):
            away = step == fail_t
            if away:
                os.rename(d, d + '.away')
            try:
                model.execute()
            except OSError:
                failures += 1
            finally:
                if away:
                    os.rename(d + '.away', d)
            text = open(path).read() if os.path.exists(path) else ''
            whole = text + ''.join(col.records)
            if whole != ''.join(collected):
                raise Violation(f'after step {step} (output directory missing during step {fail_t}, {failures} failed '
                                f'flushes so far): file text + held records differs from everything collected (records '
                                f'per collection {counts}, write_count {wc})', expected=''.join(collected), observed=whole)
        return (failures, len(collected))
    finally:
        shutil.rmtree(tmp, ignore_errors=True)


def _rec(t, i, length=None):
    """One record of the file leg; padded to an exact length when the case asks for very long records."""
    r = f't{t}r{i};'
    return r if not length else r + 'x' * (length - len(r) - 1) + '|'


def file_case(case):
    if 'fail_t' in case:
        return file_fault_case(case)
    reset_library()
    counts, wc, win = case['counts'], case['write_count'], WINDOWS[case['win']]
    tmp = tempfile.mkdtemp(prefix='c17-')
    try:
        path = os.path.join(tmp, 'out.txt')
        model = new_model(seed=1)
        script = list(counts)

        class Col(FileCollector):
            def collect(self):
                t = self.model.systems.timestep
                for i in range(script[t]):
                    self.records.append(_rec(t, i, case.get('record_len')))

        if case.get('own_writer'):
            # the collector overrides write_records() - the documented place to change the output format - and does
            # not call the base method (here: the same text, written through a different call)
            class Col(Col):      # noqa
                def write_records(self):
                    with open(self.filename, self.filemode) as f:
                        f.writelines(self.records)
                    # (the hook has no documented return value: this one reports something of its own)
                    return {'true': True, 'zero': 0, 'chars': sum(map(len, self.records))}.get(case['own_writer'])

        start, end, freq = win
        kw = {'start': start, 'frequency': freq}
        if end != INF:
            kw['end'] = end
        if case.get('filemode'):
            kw['filemode'] = case['filemode']       # other spellings of append mode
        already = ''
        if case.get('prior'):
            # an earlier run in this process wrote to the same path; between the runs its output is archived (renamed) and
            # a fresh empty file put in its place / deleted / left where it is (this run then appends to it)
            old = new_model(seed=2)

            class Prior(FileCollector):
                def collect(self):
                    self.records.append(f'p{self.model.systems.timestep};')
            pc = Prior('fc', old, path, write_count=case.get('prior_wc', 0), **({'filemode': case['filemode']} if
                                                                                case.get('filemode') else {}))
            old.systems.add_system(pc)
            old.execute(4)
            ptext = open(path).read() if os.path.exists(path) else ''
            if ptext + ''.join(pc.records) != 'p0;p1;p2;p3;':
                raise Violation('earlier run: file text + held records', expected='p0;p1;p2;p3;', observed=ptext)
            if case['prior'] == 'archived':
                if os.path.exists(path):
                    os.replace(path, path + '.old')
                open(path, 'w').close()
            elif case['prior'] == 'deleted':
                if os.path.exists(path):
                    os.remove(path)
            else:
                already = ptext
        col = Col('fc', model, path, write_count=wc, **kw)
        if (col.filemode != 'a' and not case.get('filemode')) or col.priority != -1:
            raise Violation('FileCollector defaults changed', expected=['a', -1], observed=[col.filemode, col.priority])
        model.systems.add_system(col)
        collected, flushed, held, ncoll = [], [], [], 0
        states = []
        for t in range(len(counts)):
            if scheduled(t, win):
                new = [_rec(t, i, case.get('record_len')) for i in range(counts[t])]
                collected += new
                held += new
                ncoll += 1
                if ncoll % (wc + 1) == 0:
                    flushed += held
                    held = []
            model.execute()
            text = open(path).read() if os.path.exists(path) else ''
            if not text.startswith(already):
                raise Violation(f'after timestep {t}: the text an earlier run had left in the file is gone',
                                expected=already, observed=text[:60])
            text = text[len(already):]
            got_held = list(col.records)
            if text + ''.join(got_held) != ''.join(collected):
                raise Violation(f'after timestep {t}: file text + held records differs from everything collected so '
                                f'far (records per collection {counts}, write_count {wc}, window {win})',
                                expected=''.join(collected), observed=text + ' | ' + ''.join(got_held))
            if text != ''.join(flushed) or got_held != held:
                raise Violation(f'after timestep {t}: flush point is not every (write_count+1)-th collection '
                                f'(records per collection {counts}, write_count {wc}, window {win})',
                                expected=[''.join(flushed), held], observed=[text, got_held])
            states.append((text, tuple(got_held)))
        # the run stops here (between two flushes, in general) and the model is dropped: what the file holds is what
        # was flushed while the run was alive - nothing is appended behind the user's back afterwards
        final = open(path).read() if os.path.exists(path) else ''
        del col, model
        import gc
        gc.collect()
        after = open(path).read() if os.path.exists(path) else ''
        if after != final:
            raise Violation(f'the output file changed after the run had stopped and the model was dropped (records per '
                            f'collection {counts}, write_count {wc}, window {win})', expected=final, observed=after)
        return tuple(states)
    finally:
        shutil.rmtree(tmp, ignore_errors=True)


def file_chunk(ctx, chunk):
    for case in chunk:
        ctx.traces += 1
        ctx.states += 1
        ctx.transitions += len(case['counts'])
        try:
            ctx.outcome(hbfs._guard(file_case, case))
        except Violation as v:
            ctx.report(case, v)
            if ctx.full():
                return


# the cheap legs run once more under the runner's ambient configurations (python -O, other logger levels)
AMBIENT_LEGS = True


def run(ctx):
    quick = ctx.tier == 'quick'
    case = {'leg': 'crowd', 'n': 120 if ctx.small else 1200}
    ctx.traces += 1
    try:
        ctx.transitions += hbfs._guard(crowd_case, case)
        ctx.outcome(('crowd', case['n']))
    except Violation as v:
        ctx.report(case, v)
        return
    ctx.leg('crowd', note='agent collector over 1200 agents, 4 timesteps, agents leaving and joining in between')
    T, wcs = (5, range(4)) if quick else (7, range(6))
    nl = 0
    for n in (3, 6):
        for k in range(n):
            for incl in (False, True):
                for leaver in (False, True):
                    for split in (False, True):
                        case = {'leg': 'late_install_multi', 'n': n, 'k': k, 'incl': incl, 'leaver': leaver, 'split': split}
                        ctx.traces += 1
                        nl += 1
                        try:
                            ctx.transitions += hbfs._guard(late_install_multi_case, case)
                        except Violation as v:
                            ctx.report(case, v)
                            return
    ctx.leg('late_install_multi', cases=nl)
    cases = [{'leg': 'file', 'counts': list(c), 'write_count': wc, 'win': wi}
             for c in itertools.product((0, 1, 2), repeat=T) for wc in wcs for wi in range(len(WINDOWS))]
    for fm in ('at', 'a+', 'ta', '+a'):
        for counts in ([1, 2, 0, 1, 2], [2, 2, 2, 2, 2]):
            for wc in (0, 1, 2):
                cases.append({'leg': 'file', 'counts': counts, 'write_count': wc, 'win': 0, 'filemode': fm})
    for counts in ([1, 2, 0, 1, 2], [2, 2, 2, 2, 2], [0, 0, 1, 0, 1]):
        for wc in (0, 1, 2):
            for wi in range(len(WINDOWS)):
                cases.append({'leg': 'file', 'counts': counts, 'write_count': wc, 'win': wi, 'own_writer': True})
                if wi == 0:
                    for ret in ('true', 'zero', 'chars'):
                        cases.append({'leg': 'file', 'counts': counts, 'write_count': wc, 'win': wi, 'own_writer': ret})
    # a flush that fails (output directory missing during one timestep), at every timestep
    for counts in ([1, 2, 0, 1, 2], [2, 2, 2, 2, 2]):
        for wc in (0, 1, 2):
            for fail_t in range(6):
                cases.append({'leg': 'file', 'counts': counts, 'write_count': wc, 'win': 0, 'fail_t': fail_t})
    # very long records, at and around multiples of the I/O buffer size (8192): 3 x 8192 = 24576, 49152, 73728 characters
    for L in (24576, 49152, 49151, 49153, 73728, 8192, 16384):
        for wc in (0, 1):
            cases.append({'leg': 'file', 'counts': [1, 2, 1], 'write_count': wc, 'win': 0, 'record_len': L})
    # large backlogs: many records per collection, flush sizes at and around powers of two
    for per in (8, 16, 64, 63, 65):
        for wc in (0, 1, 3, 7):
            cases.append({'leg': 'file', 'counts': [per] * (2 * (wc + 1) + 1), 'write_count': wc, 'win': 0})
    for per in (512, 1024, 2048, 4095, 4096, 4097):
        for wc in (0, 1, 3, 7):
            cases.append({'leg': 'file', 'counts': [per] * (2 * (wc + 1) + 1), 'write_count': wc, 'win': 0})
    # an earlier run in the same process wrote to the same path; its output is archived / deleted / appended to
    for prior in ('archived', 'deleted', 'kept'):
        for wc in (0, 1, 2):
            for pwc in (0, 1, 5):
                for fm in (None, 'at'):
                    cases.append({'leg': 'file', 'counts': [1, 2, 0, 1, 2], 'write_count': wc, 'win': 0, 'prior': prior,
                                  'prior_wc': pwc, **({'filemode': fm} if fm else {})})
    size = max(1, len(cases) // (ctx.procs * 4))
    if ctx.small:
        cases = cases[::9]
    par.pmap(ctx, file_chunk, [cases[i:i + size] for i in range(0, len(cases), size)], procs=ctx.procs)
    ctx.leg('file', runs=len(cases), timesteps_each=T, crash_points=len(cases) * T)
    ctx.sample(cases[len(cases) // 2])
    if ctx.violations:
        return
    if quick:
        items = [(cfg, ['a', 'b'], 3 if ctx.small else 4) for cfg in QUICK_CONFIGS]
        items += [(('absent', False, 0, 'default', True), ['a', 'b'], 4), (('dict', True, 1, 'default', True), ['a', 'b'], 4),
                  (('absent', True, 1, 'default'), ['a', 'b', 'c'], 5),
                  (('absent', True, 0, 'default', False, 'draining'), ['a', 'b'], 4),
                  (('dict', False, 1, 'plus5', False, 'draining'), ['a', 'b'], 4)]
    else:
        items = [((c, i, wi, p), ['a', 'b', 'c'], 4) for c in COMPOSITES for i in (False, True)
                 for wi in range(len(WINDOWS)) for p in ('default', 'plus5')]
        items += [(cfg, ['a', 'b'], 5) for cfg in QUICK_CONFIGS]
        items += [((c, i, wi, 'default', False, 'draining'), ['a', 'b', 'c'], 4) for c in ('absent', 'dict') for i in (False, True)
                  for wi in (0, 1)]
    par.pmap(ctx, agent_fn, items, procs=ctx.procs)
    ctx.caps.append(f'agent leg: depth bound {items[0][2]} (all histories up to that depth covered)')


def replay(case):
    if case['leg'] == 'crowd':
        hbfs._guard(crowd_case, case)
        return
    if case['leg'] == 'late_install_multi':
        hbfs._guard(late_install_multi_case, case)
        return
    if case['leg'] == 'file':
        hbfs._guard(file_case, case)
    else:
        c = case['config']
        hbfs.replay_case(AgentLeg(c['composite'], c['incl'], c['win'], c['prio'], c['keys'], c.get('late', False), c.get('fn', 'pure')), case)
