"""C12 - positional queries return exactly the agents inside the leeway box.

Leg `single` (E2): one agent at every lattice position x every query point (lattice extended one step outside) x
every leeway combination.  Leg `population` (E1): BFS over add/move/move_to/remove of three agents (coincident
agents, removals from the middle), with a fixed query menu evaluated in every state.

Two references: S (what the property states: circular distance in wrapping worlds) and K (the pinned
implementation's plain interval filter).  impl == S -> pass; wrapping world, S != K and impl == K -> known finding
F5; anything else -> VIOLATION.  In non-wrapping worlds S == K, so only S applies.
"""
import itertools
from fractions import Fraction as Fr

from mc.engine import hbfs, par
from mc.engine.report import Violation
from mc.engine.seams import Canon, reset_library, public_snapshot, new_model

import ECAgent.Core as Core
import ECAgent.Environments as Envs

PC = Envs.PositionComponent

WORLDS = {
    'space4x3x0': ('space', [4, 3, 0]),
    'space4x3x2': ('space', [4, 3, 2]),
    'disc4x3x2': ('discrete', [4, 3, 2]),
    'grid4x3': ('grid', [4, 3]),
    'sorted4x3x0': ('sorted', [4, 3, 0]),      # a user world that iterates its agents in its own order
}

META = {
    'rule': 'single: full product agent position x query point x leeway combination per world; population: BFS over '
            'histories with the query menu in every state; distinct_nontrivial counts distinct (query, answer) pairs',
    'alphabet': {'worlds': WORLDS, 'wrap': [False, True],
                 'general leeway': [-1, 0, 0.5, 1, 2, 4, 6], 'per-axis leeways': 'each of x,y,z in {0,1,3} one at a time, '
                 '(1,1,1), (3,3,3), (1,0,3), combined with general leeway 0 and 1; also negative per-axis (-1,-1,-1)',
                 'positions': 'lattice step 0.5 (continuous) / 1 (grid); quick: 3 values per axis for the agent and '
                              '6 for the query point (one step outside and far outside), thorough: full lattice extended one step and '
                              '2*extent+1 outside'},
    'bounds': {'quick': 'reduced lattices; population depth 3 on 2 worlds', 'thorough': 'full lattices; population '
               'depth 4 on 4 worlds'},
    'assumptions': ['positions are read back from the agents (C08 covers how they get there)',
                    'circular distance on an axis of extent E: min(d mod E, E - d mod E); zero-extent axes are not '
                    'circular'],
}


class SortedWorld(Envs.SpaceWorld):
    """A user world whose iteration order is its own business (reverse alphabetical, and it skips nobody)."""

    def __iter__(self):
        return iter(sorted(self.agents.values(), key=lambda a: str(a.id), reverse=True))


def mk(model, kind, dims, wrap):
    if kind == 'sorted':
        return SortedWorld(model, *dims, wrap_env=wrap)
    if kind == 'space':
        return Envs.SpaceWorld(model, *dims, wrap_env=wrap)
    if kind == 'discrete':
        return Envs.DiscreteWorld(model, *dims, wrap_env=wrap)
    return Envs.GridWorld(model, *dims, wrap_env=wrap)


def leeway_combos():
    out = [(L, 0, 0, 0) for L in (-1, 0, 0.5, 1, 2, 4, 6)]      # 4 and 6 reach / exceed the largest extent
    per = [(1, 0, 0), (3, 0, 0), (0, 1, 0), (0, 3, 0), (0, 0, 1), (0, 0, 3), (1, 1, 1), (3, 3, 3), (1, 0, 3)]
    for L in (0, 1):
        out += [(L,) + p for p in per]
    out += [(-1, -1, -1, -1), (-1, 2, -1, 0), (0.5, 0, 1, 0)]
    return out


def box_match(p, q, lw, dims, wrap, seam):
    """Is position p inside the leeway box around q?  seam=True measures around the seam in wrapping worlds."""
    L, ax = lw[0], lw[1:]
    for i in range(3):
        lim = max(Fr(L), Fr(ax[i]))
        d = abs(Fr(p[i]) - Fr(q[i]))
        if seam and wrap and dims[i] > 0:
            E = Fr(dims[i])
            d = d % E
            d = min(d, E - d)
        if d > lim:
            return False
    return True


def classify(got_ids, res, q, lw, dims, wrap, what):
    """res: list of (id, position) in joining order.  Returns None (pass) or raises; known F5 via Violation.known."""
    S = [i for i, p in res if box_match(p, q, lw, dims, wrap, True)]
    if got_ids == S:
        return None
    K = [i for i, p in res if box_match(p, q, lw, dims, wrap, False)]
    if wrap and S != K and got_ids == K:
        return Violation(f'{what}: answer ignores the seam of the wrapping world', expected=S, observed=got_ids,
                         known='F5')
    raise Violation(f'{what}: answer differs from the agents inside the leeway box', expected=S, observed=got_ids)


# ---------------------------------------------------------------------------------------------------------
# single-agent product
# ---------------------------------------------------------------------------------------------------------

def axis_values(E, cont, full):
    if E <= 0:
        return [0], [0]
    step = 0.5 if cont else 1
    top = E if cont else E - 1
    if full:
        n = int(top / step)
        a = [step * i for i in range(n + 1)]
        q = [-(2 * E + 1), -step] + a + [top + step, top + 2 * E + 1]
    else:
        mid = (E // 2) if not cont else E / 2
        a = sorted({0, mid, top})
        q = sorted({-step, 0, mid, top, top + step, top + 2 * E + 1})      # incl. a point far outside the world
    conv = (lambda v: float(v)) if cont else (lambda v: int(v))
    return [conv(v) for v in a], [conv(v) for v in q]


def single_world(case):
    reset_library()
    kind, dims = WORLDS[case['world']]
    wrap, full = case['wrap'], case['full']
    cont = kind == 'space'
    d3 = list(dims) + [0] * (3 - len(dims))
    model = new_model(seed=1)
    env = model.environment = mk(model, kind, dims, wrap)
    a = Core.Agent('a', model)
    nargs = 2 if kind == 'grid' else 3
    env.add_agent(a, *([0] * nargs))
    # a second world (other model) holding an agent with the same id at a fixed spot, queried in between
    m2 = new_model(seed=2)
    env2 = m2.environment = mk(m2, kind, dims, not wrap)
    b = Core.Agent('a', m2)
    env2.add_agent(b, *([1] * nargs))
    av, qv = zip(*[axis_values(E, cont, full) for E in d3])
    combos = leeway_combos()
    only = case.get('only')
    evals = 0
    answers = set()
    known = None
    cn = Canon(drop={('DiscreteWorld', 'cells'), ('GridWorld', 'cells')})
    for p in itertools.product(*av):
        env.move_to(a, *p[:nargs])
        if case.get('frac'):
            # a fractional step in a wrapping grid world: the agent sits between cells, possibly beyond the last cell
            # ((E - 1) + 0.5 < E is a legal coordinate there); the reference takes the position as read back
            env.move(a, *[0.5 if d3[i] > 0 else 0 for i in range(nargs)])
            p = tuple(a[PC].xyz())
            if any(not (0 <= p[i] < d3[i]) for i in range(3) if d3[i] > 0):
                raise Violation(f'fractional move in a wrapping world left the agent at {p}')
        if env2.get_agents_at(1, 1, 1 if nargs == 3 else 0, 0) != [b]:
            raise Violation('a query in a second world was disturbed by the world under test')
        snap = public_snapshot(model)
        for bad in (('x', 0, 0, 0), (0, None, 0, 0), (0, 0, 0, 'wide'), (0, 0, 0, 0, [1])):
            try:
                env.get_agents_at(*bad)      # a refused (or oddly answered) query leaves nothing behind for the next ones
            except Exception:      # noqa
                pass
        for q in itertools.product(*qv):
            for lw in combos:
                if only is not None and [list(p), list(q), list(lw)] != only:
                    continue
                evals += 1
                got = env.get_agents_at(q[0], q[1], q[2], lw[0], lw[1], lw[2], lw[3])
                if not isinstance(got, list) or any(g is not a for g in got) or len(got) > 1:
                    raise Violation(f'query {q} leeways {lw}: answer is not a list of resident agents',
                                    observed=repr(got))
                ids = ['a'] if got else []
                v = classify(ids, [('a', p)], q, lw, d3, wrap,
                             f'world {case["world"]} wrap={wrap} agent at {p} query {q} leeways {lw}')
                if v is not None and known is None:
                    v.case_only = [list(p), list(q), list(lw)]
                    known = v
                answers.add((q, lw, bool(got)))
        if public_snapshot(model) != snap:
            raise Violation(f'queries around agent position {p} changed the model')
    return evals, len(answers), known


def resized_world_case(case):
    """A world whose extents are enlarged after construction (its public width / height): agents placed or moved into
    the new territory are found there like anywhere else."""
    reset_library()
    model = new_model(seed=1)
    env = model.environment = Envs.SpaceWorld(model, 4, 3, 0, wrap_env=case['wrap'])
    first = Core.Agent('first', model)
    env.add_agent(first, 1, 1, 0)
    if env.get_agents_at(1, 1, 0, 0.5) != [first]:
        raise Violation('query before the world was enlarged')
    env.width, env.height = 9, 6
    second = Core.Agent('second', model)
    env.add_agent(second, 7.5, 4.5, 0)
    env.move_to(first, 8, 5, 0)
    q = 0
    where = [(first, (8, 5, 0)), (second, (7.5, 4.5, 0))]
    for qp in ((7.5, 4.5, 0), (8, 5, 0), (6, 4, 0), (7, 4, 0), (1, 1, 0), (8.5, 5.5, 0), (9, 6, 0), (5, 3.5, 0)):
        for lw in (0, 0.5, 1, 3):
            got = env.get_agents_at(qp[0], qp[1], qp[2], lw)
            q += 1
            want = [a for a, p in where if box_match(p, qp, (lw, 0, 0, 0), [9, 6, 0], False, False)]
            if case['wrap']:
                if not set(map(id, want)) <= set(map(id, got)):      # seam handling is finding F5's subject
                    raise Violation(f'world enlarged from 4x3 to 9x6 after construction: query {qp} leeway {lw} misses an '
                                    f'agent inside the plain box', expected=[a.id for a in want], observed=[a.id for a in got])
            elif got != want:
                raise Violation(f'world enlarged from 4x3 to 9x6 after construction: query {qp} leeway {lw}',
                                expected=[a.id for a in want], observed=[a.id for a in got])
    return q


def two_callers_case(case):
    """Two positional queries on the same world by two threads, the second cutting into the first at every line of
    library code (E5): both get their own answer."""
    from mc.engine import preempt
    kind, dims = WORLDS[case['world']]
    d3 = list(dims) + [0] * (3 - len(dims))
    nargs = 2 if kind == 'grid' else 3
    spots = [(0, 0, 0), (1, 1, 0), (3, 2, 0), (2, 1, 0), (1, 1, 0)]
    queries = [((1, 1, 0), (1, 0, 0, 0)), ((3, 2, 0), (0, 0, 0, 0)), ((2, 0, 0), (0.5, 2, 0, 0)), ((0, 2, 0), (6, 0, 0, 0))]
    qa, qb = queries[case['a']], queries[case['b']]
    state = {}

    def make():
        reset_library()
        model = new_model(seed=1)
        env = model.environment = mk(model, kind, dims, False)
        agents = []
        for i, p in enumerate(spots):
            a = Core.Agent(f't{i}', model)
            env.add_agent(a, *p[:nargs])
            agents.append((a, tuple(a[PC].xyz())))
        state['agents'] = agents
        return (lambda: env.get_agents_at(qa[0][0], qa[0][1], qa[0][2], *qa[1])), \
               (lambda: env.get_agents_at(qb[0][0], qb[0][1], qb[0][2], *qb[1]))

    def judge(k, box_a, box_b):
        for who, box, q in (('first', box_a, qa), ('second', box_b, qb)):
            exp = [a for a, p in state['agents'] if box_match(p, q[0], q[1], d3, False, False)]
            if box.error is not None or box.value != exp:
                raise Violation(f'two callers on one {case["world"]} world: the {who} query {q} gave a wrong answer when the '
                                f'second cut into the first at line event {k}', expected=[a.id for a in exp],
                                observed=repr(box.error) if box.error else [a.id for a in box.value])
    return preempt.check_pair(make, judge, case.get('k'))


def bigint_crowd_case(case):
    """More agents than any small-population threshold, at integer coordinates beyond 2**53 (neighbours collapse onto one
    double), queried with all-integer arguments: Python integers compare exactly."""
    reset_library()
    n = case['n']
    model = new_model(seed=1)
    env = model.environment = Envs.SpaceWorld(model, 2 ** 60, 2 ** 60, 0)
    agents = []
    for i in range(n):
        a = Core.Agent(f'b{i}', model)
        env.add_agent(a, 2 ** 53 + i, 2 ** 54 + 3 * i, 0)
        agents.append(a)
    q = 0
    for i in (0, 1, n // 2, n - 1):
        for lw in (0, 1, 3):
            x, y = 2 ** 53 + i, 2 ** 54 + 3 * i
            got = env.get_agents_at(x, y, 0, lw, 0, 0, 0)
            want = [a for j, a in enumerate(agents) if abs(j - i) <= lw and abs(3 * j - 3 * i) <= lw]
            q += 1
            if got != want:
                raise Violation(f'{n} agents at integer coordinates beyond 2**53: query at agent b{i} with integer leeway {lw}',
                                expected=[a.id for a in want], observed=[a.id for a in got])
            got = env.get_agents_at(x, y, 0, 0, lw, 3 * lw, 0)
            want = [a for j, a in enumerate(agents) if abs(j - i) <= lw]
            q += 1
            if got != want:
                raise Violation(f'{n} agents at integer coordinates beyond 2**53: query at agent b{i} with per-axis integer '
                                f'leeways ({lw}, {3 * lw})', expected=[a.id for a in want], observed=[a.id for a in got])
    return q


def nan_case(case):
    """Not-a-number coordinates: an agent whose position is NaN on some axis is inside no box, and a query point with
    a NaN coordinate has nobody inside its box (every comparison with NaN is false)."""
    reset_library()
    kind, dims = WORLDS[case['world']]
    nan = float('nan')
    model = new_model(seed=1)
    env = model.environment = mk(model, kind, dims, case['wrap'])
    nargs = 2 if kind == 'grid' else 3
    normal = []
    for i, p in enumerate(((0, 0, 0), (1, 1, 0), (3, 2, 0), (2, 1, 0))):
        a = Core.Agent(f'n{i}', model)
        env.add_agent(a, *p[:nargs])
        normal.append((a, tuple(a[PC].xyz())))
    lost = []
    for i, axis in enumerate(range(nargs)):
        a = Core.Agent(f'lost{i}', model)
        p = [1, 1, 0]
        p[axis] = nan
        try:
            env.add_agent(a, *p[:nargs])
        except Exception:      # noqa - a world that refuses such a placement has no such agent: nothing to judge
            continue
        if env.get_agent(a.id) is a:
            lost.append(a)
    q = 0
    for qp in itertools.product((-1, 0, 1, 2.5, 3), (0, 1, 2), (0,)):
        for lw in ((0, 0, 0, 0), (1, 0, 0, 0), (0.5, 0, 2, 0), (6, 0, 0, 0), (0, 3, 3, 3)):
            got = env.get_agents_at(qp[0], qp[1], qp[2], *lw)
            q += 1
            want = [a for a, p in normal if box_match(p, qp, lw, list(dims) + [0] * (3 - len(dims)), False, False)]
            if case['wrap']:
                # seam handling is finding F5's subject: here only the NaN agents are judged
                if any(g in lost for g in got):
                    raise Violation(f'query {qp} leeways {lw}: an agent with a NaN coordinate was returned',
                                    observed=[g.id for g in got])
            elif [g.id for g in got] != [a.id for a in want]:
                raise Violation(f'query {qp} leeways {lw} with NaN-positioned agents present: answer differs from the '
                                f'agents inside the box', expected=[a.id for a in want], observed=[g.id for g in got])
    for qp in ((nan, 1, 0), (1, nan, 0), (nan, nan, 0)) + (((1, 1, nan),) if nargs == 3 else ()):
        for lw in ((0, 0, 0, 0), (6, 0, 0, 0), (0, 9, 9, 9)):
            got = env.get_agents_at(qp[0], qp[1], qp[2], *lw)
            q += 1
            if got:
                raise Violation(f'query point {qp} (NaN coordinate) leeways {lw}: nobody is inside a box around '
                                f'not-a-number', expected=[], observed=[g.id for g in got])
    return q


class Waypoint(Envs.PositionComponent):
    """A user component derived from PositionComponent (a target the agent heads for), NOT the agent's position."""


def crowd_case(case):
    """Many agents (beyond any small-population threshold) at coordinates that are not exactly representable in single
    precision; exact-position queries (leeway 0), whole-row boxes and removal from the middle."""
    reset_library()
    kind, dims = WORLDS[case['world']]
    n = case['n']
    model = new_model(seed=1)
    if case.get('huge'):
        env = model.environment = Envs.SpaceWorld(model, 2 ** 60, 3, 0)
        kind, dims = 'space', [2 ** 60, 3, 0]
    else:
        env = model.environment = mk(model, kind, dims, False)
    cont = kind == 'space'
    nargs = 2 if kind == 'grid' else 3
    d3 = list(dims) + [0] * (3 - len(dims))
    agents, pos = [], []
    kept = []          # the caller keeps references to position components it has seen (also of agents that left)
    huge = case.get('huge')
    for i in range(n):
        if huge:
            p = (2 ** 53 + i, 1, 0)                # integer coordinates beyond the exact range of doubles
        elif cont:
            p = ((i % 39) * 0.1 + 0.05, (i % 7) * 0.3 + 0.1, 0.0 if d3[2] == 0 else (i % 3) * 0.7)
        else:
            p = (i % d3[0], (i // d3[0]) % d3[1], 0 if d3[2] == 0 else (i // (d3[0] * d3[1])) % d3[2])
        if i % 5 == 4 and not huge:
            # an agent whose CLASS carries a class-level position (the herd's home): not where the agent is
            Homed = type('Homed', (Core.Agent,), {})
            Homed.add_class_component(Envs.PositionComponent(Homed, model, 1, 1, 0))
            a = Homed(f'c{i}', model)
        else:
            a = Core.Agent(f'c{i}', model)
        if i % 2:      # attached before the agent is placed: some other point, never the agent's position
            a.add_component(Waypoint(a, model, 0, 0, 0))
        env.add_agent(a, *p[:nargs])
        kept.append(a[Envs.PositionComponent])
        agents.append(a)
        pos.append(p)
    live = list(range(n))
    q = 0
    for rnd in range(2):
        for i in live:
            got = env.get_agents_at(pos[i][0], pos[i][1], pos[i][2], 0)
            exp = [agents[j] for j in live if pos[j] == pos[i]]
            q += 1
            if got != exp:
                raise Violation(f'{n} agents: exact-position query at {pos[i]} (leeway 0)',
                                expected=[a.id for a in exp], observed=[a.id for a in got])
        got = env.get_agents_at(0, 0, 0, 2 ** 62)
        if got != [agents[j] for j in live]:
            raise Violation(f'{n} agents: all-embracing box is not all agents in joining order')
        if cont and not huge and rnd == 0:
            # boxes whose face passes a hair's breadth (1e-9, far below single precision) beside an agent: in or out is
            # decided by the exact coordinates
            for i in live[::max(1, len(live) // 12)]:
                for off, lw in ((1 + 1e-9, 1), (1 - 1e-9, 1), (0.5 + 1e-9, 0.5), (1e-9, 0)):
                    for sign in (1, -1):
                        qp = (pos[i][0] + sign * off, pos[i][1], pos[i][2])
                        got = env.get_agents_at(qp[0], qp[1], qp[2], lw)
                        exp = [agents[j] for j in live if box_match(pos[j], qp, (lw, 0, 0, 0), d3, False, False)]
                        q += 1
                        if got != exp:
                            raise Violation(f'{n} agents: query at {qp} leeway {lw} (a face 1e-9 beside agent {agents[i].id} at '
                                            f'{pos[i]})', expected=[a.id for a in exp], observed=[a.id for a in got])
        # one agent is replaced by a newcomer elsewhere (the population size stays the same), then queried again
        v = live[len(live) // 3]
        env.remove_agent(agents[v].id)
        live.remove(v)
        newcomer = Core.Agent(f'x{rnd}', model)
        np_ = pos[(v + 1) % len(pos)]
        env.add_agent(newcomer, *np_[:nargs])
        kept.append(newcomer[Envs.PositionComponent])
        agents.append(newcomer)
        pos.append(np_)
        live.append(len(agents) - 1)
        for i in live:
            got = env.get_agents_at(pos[i][0], pos[i][1], pos[i][2], 0)
            exp = [agents[j] for j in live if pos[j] == pos[i]]
            q += 1
            if got != exp:
                raise Violation(f'{n} agents, one replaced by a newcomer: exact-position query at {pos[i]}',
                                expected=[a.id for a in exp], observed=[a.id for a in got])
        # agents leave from the middle and the front; one re-joins at the end
        for v in (n // 2, 0):
            if v in live:
                env.remove_agent(agents[v].id)
                live.remove(v)
        env.add_agent(agents[0], *pos[0][:nargs])
        live.append(0)
    return q


def replaced_world_case(case):
    """A model is given a second world: agents of the abandoned world never show up in queries on the new one."""
    reset_library()
    model = new_model(seed=1)
    old = model.environment = Envs.GridWorld(model, 4, 3)
    for i in range(3):
        old.add_agent(Core.Agent(f'o{i}', model), i, 1)
    new = Envs.SpaceWorld(model, 4.0, 3.0, 0.0) if case['new'] == 'space' else Envs.GridWorld(model, 4, 3)
    model.set_environment(new) if case['via'] == 'set' else setattr(model, 'environment', new)
    if new.get_agents_at(1, 1, 0, 5) != []:
        raise Violation('a freshly installed, empty world answers with agents of the world it replaced',
                        expected=[], observed=[a.id for a in new.get_agents_at(1, 1, 0, 5)])
    a = Core.Agent('n0', model)
    new.add_agent(a, 1, 1)
    b = Core.Agent('o1', model)          # same id as an agent of the old world
    new.add_agent(b, 2, 1)
    got = new.get_agents_at(1, 1, 0, 1)
    if got != [a, b]:
        raise Violation('query on the new world', expected=['n0', 'o1(new)'], observed=[x.id for x in got])
    if [x.id for x in old.get_agents_at(1, 1, 0, 0)] != ['o1']:
        raise Violation('query on the abandoned world changed')
    return 3


def single_fn(ctx, case):
    ctx.traces += 1
    ctx.states += 1
    try:
        evals, answers, known = hbfs._guard(single_world, case)
        ctx.transitions += evals
        ctx.outcome((case['world'], case['wrap'], answers))
        ctx.outcome((case['world'], case['wrap'], 'x'))
        if known is not None:
            c = dict(case)
            c['only'] = known.case_only
            ctx.report(c, known)
    except Violation as v:
        ctx.report(case, v)


# ---------------------------------------------------------------------------------------------------------
# population BFS
# ---------------------------------------------------------------------------------------------------------

class World:
    pass


class Population:
    def __init__(self, world, wrap):
        self.world, self.wrap = world, wrap
        self.kind, self.dims = WORLDS[world]
        self.cont = self.kind in ('space', 'sorted')
        self.d3 = list(self.dims) + [0] * (3 - len(self.dims))
        self.nargs = 2 if self.kind == 'grid' else 3
        self.config = {'world': world, 'wrap': wrap}
        self.cn = Canon(drop={('DiscreteWorld', 'cells'), ('GridWorld', 'cells')})
        top = [(E if self.cont else E - 1) if E > 0 else 0 for E in self.d3]
        h = 0.5 if self.cont else 1
        self.spots = [[0, 0, 0], [top[0], 0, 0], [top[0] - h, top[1], top[2]], [h, top[1] - h if top[1] else 0, 0]]
        self.deltas = [[1, 0, 0], [0, -1, 0], [-h, h, 0]]
        qs = [[0, 0, 0], [top[0], 0, 0], [top[0], top[1], top[2]], [-h, 0, 0], [top[0] + h, top[1], 0],
              [top[0] / 2 if self.cont else top[0] // 2, top[1] / 2 if self.cont else top[1] // 2, 0]]
        lws = [(0, 0, 0, 0), (1, 0, 0, 0), (0.5, 0, 0, 0), (0, 3, 0, 0), (0, 0, 1, 3), (-1, 0, 0, 0), (2, 0, 0, 0)]
        self.queries = [(q, lw) for q in qs for lw in lws]
        self.keys = ['a', 'b', 'c']

    def fresh(self):
        w = World()
        w.model = new_model(seed=1)
        w.env = w.model.environment = mk(w.model, self.kind, self.dims, self.wrap)
        w.agents = {k: Core.Agent(k, w.model) for k in self.keys}
        w.order = []
        # bystander world: same agent ids, fixed positions, queried in every state
        w.m2 = new_model(seed=2)
        w.env2 = w.m2.environment = mk(w.m2, self.kind, self.dims, self.wrap)
        w.by = [Core.Agent(k, w.m2) for k in ('c', 'a')]
        for i, ag in enumerate(w.by):
            w.env2.add_agent(ag, *([i] * self.nargs))
        w.known_now = None
        w.last = None
        return w

    def known(self, w):
        return w.known_now

    def ops(self, w):
        ops = [['query']] + ([['complete']] if w.model.is_running() else [])
        for k in self.keys:
            if k in w.order:
                ops += [['move', k, d] for d in self.deltas]
                ops += [['move_to', k, s] for s in self.spots[:3]]
                # positions as value objects: the agent's component is taken off and a new one attached; the component's
                # coordinates are written directly
                ops += [['newpc', k, s] for s in self.spots[1:3]]
                ops += [['edit', k, self.spots[3]]]
                ops.append(['register', k])      # the user registers the position component with the model's pools
                ops.append(['rename', k])        # the agent's id attribute is re-assigned while it lives in the world
                ops.append(['remove', k])
            else:
                ops += [['add', k, s] for s in self.spots]
        return ops

    def apply(self, w, op):
        w.known_now = None
        if op[0] == 'complete':
            w.model.complete()
            return
        if op[0] == 'query':
            self.check(w)
            # the general listing and a shuffle are read as well (and the listing is vandalised by the caller)
            lst = w.env.get_agents()
            lst.reverse()
            del lst[:1]
            st = w.model.random.getstate()
            w.env.shuffle()
            w.model.random.setstate(st)
            return
        a = w.agents[op[1]]
        if op[0] == 'add':
            w.env.add_agent(a, *op[2][:self.nargs])
            w.order.append(op[1])
        elif op[0] == 'move':
            w.env.move(a, *op[2])
        elif op[0] == 'move_to':
            w.env.move_to(a, *op[2][:self.nargs])
        elif op[0] == 'newpc':
            a.remove_component(PC)
            a.add_component(PC(a, w.model, *op[2]))
        elif op[0] == 'edit':
            pc = a[PC]
            pc.x, pc.y, pc.z = op[2]
        elif op[0] == 'rename':
            a.id = op[1] if a.id != op[1] else op[1] + '~'      # (the world knows the agent under the id it joined with)
        elif op[0] == 'register':
            try:
                w.model.systems.register_component(a[PC])
            except KeyError:
                pass        # registered already
        else:
            w.env.remove_agent(op[1])
            w.order.remove(op[1])

    def check(self, w):
        if w.env2.get_agents_at(0, 0, 0, 1) != w.by or w.env2.get_agents_at(1, 1, 1 if self.nargs == 3 else 0, 0) != \
                w.by[1:]:
            raise Violation('queries in a bystander world are disturbed by the world under test')
        res = [(k, w.agents[k][PC].xyz()) for k in w.order]
        before = public_snapshot(w.model)
        answers = []
        for q, lw in self.queries:
            got = w.env.get_agents_at(q[0], q[1], q[2], lw[0], lw[1], lw[2], lw[3])
            if not isinstance(got, list):
                raise Violation(f'query {q} {lw}: answer is not a list', observed=repr(got))
            ids = []
            for g in got:
                hit = [k for k in self.keys if w.agents[k] is g]
                if not hit:
                    raise Violation(f'query {q} {lw}: answer contains a non-resident object', observed=repr(g))
                ids.append(hit[0])
            v = classify(ids, res, q, lw, self.d3, self.wrap,
                         f'residents {[(k, tuple(p)) for k, p in res]} query {q} leeways {lw}')
            if v is not None and w.known_now is None:
                w.known_now = v
            answers.append(tuple(ids))
        if public_snapshot(w.model) != before:
            raise Violation('positional queries changed the model')
        w.last = tuple(answers)

    def canon(self, w):
        return self.cn(w.model, [w.agents[k] for k in self.keys])

    def refstate(self, w):
        return (tuple(w.order), w.model.is_running())

    def outcome(self, w):
        return w.last


class PopulationChecked(Population):
    """hbfs runs check() only on new states; known findings found there are surfaced through known()."""

    def apply(self, w, op):
        super().apply(w, op)


# the cheap legs run once more under the runner's ambient configurations (python -O, other logger levels)
AMBIENT_LEGS = True


def run(ctx):
    full = ctx.tier == 'thorough'
    cases = [{'leg': 'single', 'world': wn, 'wrap': wrap, 'full': full} for wn in WORLDS for wrap in (False, True)]
    cases += [{'leg': 'single', 'world': wn, 'wrap': True, 'full': full, 'frac': True} for wn in ('disc4x3x2', 'grid4x3')]
    par.pmap(ctx, single_fn, cases, procs=ctx.procs)
    ctx.leg('single', worlds=len(cases), full_lattice=full)
    extra = [{'leg': 'crowd', 'world': wn, 'n': n} for wn in ('space4x3x0', 'space4x3x2', 'grid4x3', 'disc4x3x2')
             for n in ((3, 70, 300) if not full else (3, 10, 70, 150, 300, 700))]
    extra += [{'leg': 'crowd', 'world': 'space4x3x0', 'n': 60, 'huge': True}]
    extra += [{'leg': 'replaced_world', 'new': nw, 'via': via} for nw in ('space', 'grid') for via in ('set', 'assign')]
    extra += [{'leg': 'resized_world', 'wrap': False}, {'leg': 'resized_world', 'wrap': True}]
    extra += [{'leg': 'two_callers', 'world': wn, 'a': a, 'b': b} for wn in ('space4x3x0', 'grid4x3')
              for a, b in ((0, 1), (1, 0), (2, 3), (3, 2), (0, 0))]
    extra += [{'leg': 'nan', 'world': wn, 'wrap': wr} for wn in ('space4x3x0', 'grid4x3', 'disc4x3x2') for wr in (False, True)]
    extra += [{'leg': 'bigint_crowd', 'n': n} for n in (10, 70, 300)]
    for case in extra:
        if ctx.violations:
            break
        ctx.traces += 1
        try:
            ctx.transitions += hbfs._guard({'crowd': crowd_case, 'nan': nan_case, 'bigint_crowd': bigint_crowd_case, 'resized_world': resized_world_case, 'two_callers': two_callers_case}.get(case['leg'], replaced_world_case), case)
        except Violation as v:
            ctx.report(dict(case, k=v.case_k) if hasattr(v, 'case_k') else case, v)
    ctx.leg('crowd_and_replaced_world', cases=len(extra))
    ctx.sample(cases[0])
    if ctx.violations or ctx.small:
        return
    pops = [('space4x3x0', False), ('space4x3x0', True), ('sorted4x3x0', False)]
    if full:
        pops += [('grid4x3', True), ('disc4x3x2', False), ('space4x3x2', True), ('grid4x3', False)]
    depth = 3 if not full else 4
    for wn, wrap in pops:
        h = Population(wn, wrap)
        r = hbfs.explore(ctx, h, f'population:{wn}:{"wrap" if wrap else "clamp"}', max_depth=depth, procs=ctx.procs)
        ctx.leg('population', **r)
        if ctx.violations:
            return
    ctx.caps.append(f'population: depth bound {depth} (all histories up to that depth covered)')


def replay(case):
    if case['leg'] == 'crowd':
        hbfs._guard(crowd_case, case)
    elif case['leg'] == 'replaced_world':
        hbfs._guard(replaced_world_case, case)
    elif case['leg'] == 'bigint_crowd':
        hbfs._guard(bigint_crowd_case, case)
    elif case['leg'] == 'nan':
        hbfs._guard(nan_case, case)
    elif case['leg'] == 'resized_world':
        hbfs._guard(resized_world_case, case)
    elif case['leg'] == 'two_callers':
        hbfs._guard(two_callers_case, case)
    elif case['leg'] == 'single':
        evals, answers, known = hbfs._guard(single_world, case)
        if known is not None:
            raise known
    else:
        h = Population(case['config']['world'], case['config']['wrap'])
        w = hbfs.replay_case(h, case)
        if w.known_now is not None:
            raise w.known_now
