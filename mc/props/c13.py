"""C13 - agent queries are exact filters; random picks stay within the filter.

E1 history BFS over add/remove of a pool of agents with different component sets and tags; in every reached
state every template x tag filter is queried and compared with a reference filter, and the model generator is
replaced by a scripted one whose answer scripts are enumerated exhaustively (every pick, every permutation).
"""
import itertools
import random

import numpy as np

from mc.engine import hbfs, par
from mc.engine.report import Violation
from mc.engine.seams import Canon, ScriptedRandom, ScriptExhausted, public_snapshot, new_model

import ECAgent.Core as Core


class X(Core.Component):
    pass


class Y(Core.Component):
    pass


class Z(Core.Component):
    pass


TYPES = {'X': X, 'Y': Y, 'Z': Z}

# pools of (key, component types, tag); together they cover all 12 (subset of {X,Y}) x (tag 0,1,5) kinds
POOLS = {
    'p1': [('a', 'X', 0), ('b', 'XY', 1), ('c', '', 5), ('d', 'Y', 0)],
    'p2': [('a', 'XY', 0), ('b', 'X', 1), ('c', 'Y', 5), ('d', '', 0)],
    'p3': [('a', 'YX', 5), ('b', '', 1), ('c', 'X', 5), ('d', 'Y', 1), ('e', 'XY', 0)],
    'p4': [('a', 'XY', 1), ('b', 'XY', 1), ('c', 'X', 0), ('d', 'X', 0), ('e', 'Y', None)],
}
TAGS = [None, 0, 1, 5, 9, 'np1', 'np0']        # np1 / np0: the tags 1 and 0 given as numpy integer scalars

META = {
    'rule': 'BFS over add/remove histories of a 4-5 agent pool to the fixpoint; in every state all templates (ordered, '
            'size 0..3 over X,Y,Z) x tag filters are queried; every answer script of the scripted generator is '
            'enumerated; distinct_nontrivial counts distinct (state, query, answer) triples',
    'alphabet': {'pools(key,components,tag)': POOLS, 'tag filters': TAGS,
                 'templates': 'every ordered selection of 0..3 distinct types from X,Y,Z (Z: nobody has it)',
                 'scripts': 'every answer sequence of the model generator, discovered as a decision tree'},
    'bounds': {'quick': 'pools p1,p2 (4 agents): fixpoint', 'thorough': 'pools p1..p4 (4 and 5 agents): fixpoint'},
    'assumptions': ['ScriptedRandom overrides _randbelow; draws through random()/getrandbits() are logged as foreign',
                    'tag None on construction = class default (0); seeded leg uses VERIF_SEED for 64 real seeds '
                    '(membership only, not a deciding step)'],
}


def templates():
    out = [()]
    for n in (1, 2, 3):
        out += list(itertools.permutations('XYZ', n))
    out += [('X', 'X'), ('Y', 'X', 'Y'), ('X', 'X', 'X', 'X')]      # a type listed more than once changes nothing
    return out


def tag_value(tag):
    if tag == 'np1':
        return np.int64(1)
    if tag == 'np0':
        return np.uint8(0)
    return tag


TEMPLATES = templates()


class World:
    pass


def enumerate_scripts(call, max_draws=None):
    """Run call(rng) under every answer script; yields (script, result, rng). The decision tree is discovered.
    max_draws bounds the number of draws per call (a pick by rejection sampling - draw again while the slot drawn is
    empty - has an infinite tree: its branches are followed max_draws draws deep)."""
    stack = [()]
    while stack:
        script = stack.pop()
        rng = ScriptedRandom(script)
        try:
            res = call(rng)
        except ScriptExhausted:
            if max_draws is not None and len(script) >= max_draws:
                continue
            n = rng.asked[-1]
            for v in range(n - 1, -1, -1):
                stack.append(script + (v,))
            continue
        yield script, res, rng


class Harness:
    def __init__(self, pool, seed=0):
        self.pool = pool
        self.spec = POOLS[pool]
        self.keys = [s[0] for s in self.spec]
        self.config = {'pool': pool}
        self.seed = seed
        self.cn = Canon(drop={('Model', 'random')})
        self._ops = [['add', k] for k in self.keys] + [['remove', k] for k in self.keys]

    def fresh(self):
        w = World()
        w.model = new_model(seed=1)
        w.agents = {}
        for key, comps, tag in self.spec:
            a = Core.Agent(key, w.model) if tag is None else Core.Agent(key, w.model, tag=tag)
            for t in comps:
                a.add_component(TYPES[t](a, w.model))
            w.agents[key] = a
        w.order = []
        w.last = None
        w.queries = 0
        # a second model whose environment holds agents with the same ids and components: its answers never change
        w.m2 = new_model(seed=2)
        w.by = []
        for key, comps, tag in self.spec[:3]:
            a = Core.Agent(key, w.m2, tag=1)
            for t in comps:
                a.add_component(TYPES[t](a, w.m2))
            w.m2.environment.add_agent(a)
            w.by.append(a)
        return w

    def ops(self, w):
        return [['observe']] + ([['complete']] if w.model.is_running() else []) + \
            [o for o in self._ops if (o[0] == 'add') != (o[1] in w.order)]

    def apply(self, w, op):
        if op[0] == 'complete':
            w.model.complete()        # queries on the environment of a finished model (post-run analysis) work as before
            return
        if op[0] == 'observe':
            # plain reads as an operation: every query once, picks and shuffles with the model's own generator, the
            # returned lists vandalised - whatever the library remembers from this must not show in later answers
            env = w.model.environment
            for tmpl in TEMPLATES:
                for tag in TAGS:
                    kw = {} if tag is None else {'tag': tag_value(tag)}
                    targs = [TYPES[t] for t in tmpl]
                    got = env.get_agents(*targs, **kw)
                    if [self._key(w, a) for a in got] != self._ref(w, tmpl, tag):
                        raise Violation(f'residents {w.order} template {list(tmpl)} tag {tag}: get_agents differs from '
                                        f'the exact filter', expected=self._ref(w, tmpl, tag),
                                        observed=[self._key(w, a) for a in got])
                    got.reverse()
                    got.append(None)
                    env.get_random_agent(*targs, **kw)
                    env.shuffle(*targs, **kw)
                    if tag is None:       # the deprecated spellings take a template only
                        old = env.getAgents(*targs)
                        if [self._key(w, a) for a in old] != self._ref(w, tmpl, None):
                            raise Violation(f'residents {w.order} template {list(tmpl)}: getAgents (deprecated spelling) '
                                            f'differs from the exact filter', expected=self._ref(w, tmpl, None),
                                            observed=[self._key(w, a) for a in old])
                        one = env.getRandomAgent(*targs)
                        if (one is None) != (not self._ref(w, tmpl, None)) or \
                                (one is not None and self._key(w, one) not in self._ref(w, tmpl, None)):
                            raise Violation(f'residents {w.order} template {list(tmpl)}: getRandomAgent outside the filter')
            return
        if op[0] == 'add':
            w.model.environment.add_agent(w.agents[op[1]])
            w.order.append(op[1])
        else:
            w.model.environment.remove_agent(op[1])
            w.order.remove(op[1])

    def _ref(self, w, tmpl, tag):
        spec = {s[0]: s for s in self.spec}
        out = []
        for k in w.order:
            _, comps, t = spec[k]
            t = 0 if t is None else t
            if all(c in comps for c in tmpl) and (tag is None or t == tag_value(tag)):
                out.append(k)
        return out

    def _key(self, w, a):
        for k, o in w.agents.items():
            if o is a:
                return k
        return repr(a)

    def check(self, w):
        e2 = w.m2.environment
        if e2.get_agents() != w.by or e2.get_agents(tag=1) != w.by or e2.get_agents(tag=0) != [] or \
                list(e2) != w.by:
            raise Violation('queries on a second model\'s environment are disturbed by the environment under test')
        env = w.model.environment
        for bad in (lambda: env.get_agents(5), lambda: env.get_agents(X, tag=[1]), lambda: env.get_random_agent('X'),
                    lambda: env.shuffle(X, 7), lambda: env.get_agents(None)):
            try:
                bad()      # a refused (or oddly answered) query leaves nothing behind for the queries that follow
            except Exception:      # noqa
                pass
        snap = public_snapshot(w.model, [w.agents[k] for k in self.keys])
        real_rng = w.model.random
        answers = []
        for tmpl in TEMPLATES:
            targs = [TYPES[t] for t in tmpl]
            for tag in TAGS:
                kw = {} if tag is None else {'tag': tag_value(tag)}
                exp = self._ref(w, tmpl, tag)
                what = f'residents {w.order} template {list(tmpl)} tag {tag}'
                got = env.get_agents(*targs, **kw)
                w.queries += 1
                if not isinstance(got, list):
                    raise Violation(f'{what}: get_agents did not return a list', observed=repr(got))
                gk = [self._key(w, a) for a in got]
                if gk != exp:
                    raise Violation(f'{what}: get_agents differs from the exact filter', expected=exp, observed=gk)
                # the caller may modify the list it got
                got.append('junk')
                got.reverse()
                again = [self._key(w, a) for a in env.get_agents(*targs, **kw)]
                if again != exp:
                    raise Violation(f'{what}: modifying the returned list changed the next answer', expected=exp,
                                    observed=again)
                if tag is None and tmpl == ():
                    got2 = env.get_agents(tag=None)
                    if [self._key(w, a) for a in got2] != exp:
                        raise Violation(f'{what}: explicit tag=None differs')
                # ---- random pick under every script ------------------------------------------------------
                gstate, npstate = random.getstate(), np.random.get_state()[1].tobytes()
                picks = []

                def pick(rng):
                    w.model.random = rng
                    return env.get_random_agent(*targs, **kw)
                for script, res, rng in enumerate_scripts(pick, max_draws=3):
                    w.queries += 1
                    if rng.foreign or not rng.consumed():
                        raise Violation(f'{what}: get_random_agent drew from the model generator in an uncontrolled '
                                        f'way', observed={'foreign': rng.foreign, 'asked': rng.asked})
                    if not exp:
                        if res is not None or rng.asked:
                            raise Violation(f'{what}: get_random_agent with no candidate', expected=None,
                                            observed=[self._key(w, res), rng.asked])
                    else:
                        k = self._key(w, res)
                        if k not in exp:
                            raise Violation(f'{what}: get_random_agent returned an agent outside the filter',
                                            expected=exp, observed=k)
                        picks.append(k)
                # any draw pattern is fine (the decision tree of the scripted generator was enumerated completely):
                # what is required is that every candidate is reachable and nothing else ever comes out
                if exp and set(picks) != set(exp):
                    raise Violation(f'{what}: not every matching agent is reachable by get_random_agent',
                                    expected=sorted(exp), observed=sorted(set(picks)))
                # ---- shuffle under every script ----------------------------------------------------------
                perms = set()

                def shuf(rng):
                    w.model.random = rng
                    return env.shuffle(*targs, **kw)
                nscripts = 0
                for script, res, rng in enumerate_scripts(shuf):
                    w.queries += 1
                    nscripts += 1
                    if rng.foreign or not rng.consumed():
                        raise Violation(f'{what}: shuffle drew from the model generator in an uncontrolled way',
                                        observed={'foreign': rng.foreign, 'asked': rng.asked})
                    if not isinstance(res, list):
                        raise Violation(f'{what}: shuffle did not return a list', observed=repr(res))
                    rk = [self._key(w, a) for a in res]
                    if sorted(rk) != sorted(exp):
                        raise Violation(f'{what}: shuffle is not a permutation of the filtered agents',
                                        expected=exp, observed=rk)
                    if len(exp) > 1 and not rng.asked:
                        raise Violation(f'{what}: shuffle did not consult the model generator', observed=rk)
                    perms.add(tuple(rk))
                want = 1
                for i in range(2, len(exp) + 1):
                    want *= i
                if len(perms) != want:
                    raise Violation(f'{what}: shuffle reaches {len(perms)} of {want} permutations over all scripts',
                                    expected=want, observed=len(perms))
                w.model.random = real_rng
                if random.getstate() != gstate or np.random.get_state()[1].tobytes() != npstate:
                    raise Violation(f'{what}: a query consumed the global random / numpy.random generator')
                answers.append((tmpl, tag, tuple(exp)))
        w.model.random = real_rng
        if public_snapshot(w.model, [w.agents[k] for k in self.keys]) != snap:
            raise Violation(f'residents {w.order}: queries altered the environment')
        if [self._key(w, a) for a in env] != w.order:
            raise Violation('environment iteration differs from joining order')
        # supplementary seeded leg (membership only; not a deciding step)
        for i in range(8):
            w.model.random = random.Random(self.seed * 1000 + i)
            for tmpl, tag in (((), None), (('X',), None), ((), 0)):
                kw = {} if tag is None else {'tag': tag}
                exp = self._ref(w, tmpl, tag)
                r = env.get_random_agent(*[TYPES[t] for t in tmpl], **kw)
                if (r is None) != (not exp) or (r is not None and self._key(w, r) not in exp):
                    raise Violation(f'seeded pick outside the filter (seed {self.seed * 1000 + i})')
                s = env.shuffle(*[TYPES[t] for t in tmpl], **kw)
                if sorted(self._key(w, a) for a in s) != sorted(exp):
                    raise Violation(f'seeded shuffle not a permutation (seed {self.seed * 1000 + i})')
        w.model.random = real_rng
        w.last = (tuple(w.order), hash(tuple(answers)))

    def canon(self, w):
        return self.cn(w.model, [w.agents[k] for k in self.keys])

    def refstate(self, w):
        return (tuple(w.order), w.model.is_running())

    def outcome(self, w):
        return w.last


def special_population_case(case):
    """Populations with a twist the pools do not have: agents whose CLASS carries a component of a template type (a
    class component is shared data of the class, not something each instance carries), and residents of a spatial
    world that gave up their position component after joining.  Every template x tag filter; picks and shuffles
    under every answer script."""
    from mc.engine.seams import reset_library
    import ECAgent.Environments as Envs
    reset_library()
    m = new_model(seed=1)
    PC = Envs.PositionComponent
    types = dict(TYPES)
    if case['how'] == 'class_component':
        Herd = type('Herd', (Core.Agent,), {})
        Herd.add_class_component(X(Herd, m))
        Flock = type('Flock', (Herd,), {})
        Flock.add_class_component(Y(Flock, m))
        env = m.environment
        agents = [Herd('h1', m), Herd('h2', m, tag=1), Core.Agent('p', m), Flock('f', m), Core.Agent('q', m, tag=1)]
        agents[1].add_component(Y(agents[1], m))
        agents[2].add_component(X(agents[2], m))
        agents[3].add_component(Z(agents[3], m))
        for a in agents:
            env.add_agent(a)
        tmpls = TEMPLATES
    elif case['how'] == 'odd_agents':
        # members whose class has its own notion of length: nested environments (length = number of inhabitants) and an
        # agent class defining __len__; what they match is decided by the components they carry, like for anyone else
        class Bag(Core.Agent):
            def __len__(self):
                return 0
        env = m.environment
        empty_sub = Core.Environment(m, 'sub0')
        one_sub = Core.Environment(m, 'sub1')
        one_sub.add_agent(Core.Agent('inner', m))
        class Herd(Core.Agent):
            """A composite agent that answers `member in herd` for its own purposes."""
            members = ('m1',)

            def __contains__(self, item):
                return item in self.members

        class Greedy(Core.Agent):
            def __contains__(self, item):      # claims to contain everything
                return True

        agents = [Core.Agent('p', m, tag=1), empty_sub, one_sub, Bag('bag', m, tag=1), Core.Agent('q', m),
                  Herd('herd', m, tag=2), Greedy('greedy', m, tag=2)]
        for a, ts in zip(agents, ('X', 'XY', 'XYZ', 'X', 'Y', 'XY', 'Y')):
            for t in ts:
                a.add_component(TYPES[t](a, m))
        for a in agents:
            env.add_agent(a)
        tmpls = TEMPLATES
    elif case['how'] == 'derived_types':
        class XS(X):
            """A component class DERIVED from X: an agent carrying only XS does not carry X (types are exact keys)."""
        env = m.environment
        agents = [Core.Agent('base', m), Core.Agent('derived', m, tag=1), Core.Agent('both', m), Core.Agent('none', m, tag=1)]
        agents[0].add_component(X(agents[0], m))
        agents[1].add_component(XS(agents[1], m))
        agents[1].add_component(Y(agents[1], m))
        agents[2].add_component(XS(agents[2], m))
        agents[2].add_component(X(agents[2], m))
        for a in agents:
            env.add_agent(a)
        types['S'] = XS
        tmpls = [(), ('X',), ('S',), ('X', 'S'), ('S', 'X'), ('Y', 'X'), ('Y', 'S'), ('Y',)]
    elif case['how'] == 'falsy_tags':
        # tags re-assigned after construction to values that are falsy without being 0: they are not the tag 0
        env = m.environment
        agents = [Core.Agent(k, m) for k in ('zero', 'none', 'empty', 'fzero', 'one', 'false')]
        for a, t in zip(agents, (0, None, '', 0.0, 1, False)):
            a.tag = t
        for a, ts in zip(agents, ('X', 'X', 'XY', 'Y', 'XY', 'X')):
            for t in ts:
                a.add_component(TYPES[t](a, m))
        for a in agents:
            env.add_agent(a)
        tmpls = [(), ('X',), ('X', 'Y')]
        tags = (None, 0, 1, '', 2)
    elif case['how'] == 'falsy_component':
        # a container-like component that is falsy while empty (defines __len__): attached is attached
        class Inbox(Core.Component):
            def __init__(self, agent, model, n):
                super().__init__(agent, model)
                self.items = [0] * n

            def __len__(self):
                return len(self.items)
        types['I'] = Inbox
        env = m.environment
        agents = [Core.Agent(k, m, tag=i % 2) for i, k in enumerate(('empty', 'full', 'none', 'empty_x', 'full_x'))]
        for a, spec in zip(agents, ((0, ''), (2, ''), (None, 'X'), (0, 'X'), (3, 'X'))):
            if spec[0] is not None:
                a.add_component(Inbox(a, m, spec[0]))
            for t in spec[1]:
                a.add_component(TYPES[t](a, m))
        for a in agents:
            env.add_agent(a)
        tmpls = [(), ('I',), ('X',), ('I', 'X'), ('X', 'I'), ('I', 'I')]
    elif case['how'] == 'foreign_component':
        # component classes that do not derive from the library's Component (any object can be attached): a template naming
        # such a type selects its carriers like any other type; a type nobody carries selects nobody
        class Note:
            def __init__(self, agent, model):
                self.agent, self.model = agent, model

        class Unused:
            pass
        types['N'], types['U'] = Note, Unused
        env = m.environment
        agents = [Core.Agent(k, m, tag=i % 2) for i, k in enumerate(('n', 'nx', 'x', 'none', 'xn'))]
        for a, ts in zip(agents, ('N', 'NX', 'X', '', 'XN')):
            for t in ts:
                a.add_component(types[t](a, m))
        for a in agents:
            env.add_agent(a)
        tmpls = [(), ('N',), ('X',), ('N', 'X'), ('X', 'N'), ('U',), ('U', 'X'), ('X', 'U'), ('N', 'N')]
    elif case['how'] == 'string_tags':
        # tags that are strings - some of them spelled like names in the process-wide tag library ('NONE' always is, 'SHEEP'
        # after Tags.add_tag('SHEEP')): a tag filter compares tags, it does not look names up
        import ECAgent.Tags as TagsMod
        if 'SHEEP' not in [n for n, _ in TagsMod.itemize()]:
            TagsMod.add_tag('SHEEP')
        env = m.environment
        agents = [Core.Agent(k, m) for k in ('zero', 'none_s', 'sheep_s', 'sheep_n', 'wolf_s', 'one')]
        for a, t in zip(agents, (0, 'NONE', 'SHEEP', TagsMod.SHEEP, 'WOLF', 1)):
            a.tag = t
        for a, ts in zip(agents, ('X', 'X', 'XY', 'Y', 'XY', 'X')):
            for t in ts:
                a.add_component(TYPES[t](a, m))
        for a in agents:
            env.add_agent(a)
        tmpls = [(), ('X',)]
        tags = (None, 0, 'NONE', 'SHEEP', TagsMod.SHEEP, 'WOLF', 'none')
    elif case['how'] == 'many_types':
        # 70 component types in one model; agents carrying types far apart in creation order, one of them taken off again
        env = m.environment
        many = [type(f'T{i}', (Core.Component,), {}) for i in range(70)]
        for i, T in enumerate(many):
            types[f'T{i}'] = T
        agents = [Core.Agent(k, m, tag=i % 2) for i, k in enumerate(('all', 'a', 'b', 'c', 'd', 'e'))]
        # ('all' carries every type, attached in creation order: whatever numbering the library keeps of the types it has
        # seen, T0 and T64 are 64 apart in it)
        for a, idx in zip(agents, (tuple(range(70)), (0, 64), (64,), (1, 65, 2), (), (63, 64, 65, 0))):
            for i in idx:
                a.add_component(many[i](a, m))
        for a in agents:
            env.add_agent(a)
        agents[1].remove_component(many[0])
        agents[5].remove_component(many[64])
        agents[3].remove_component(many[1])
        agents[0].remove_component(many[5])
        tmpls = [(), ('T64',), ('T0',), ('T65',), ('T1',), ('T64', 'T65'), ('T65', 'T2'), ('T63', 'T0'), ('T0', 'T64')]
    elif case['how'] == 'long_templates':
        # templates of five and more entries, with and without repeated types
        env = m.environment
        agents = [Core.Agent(k, m, tag=i % 2) for i, k in enumerate(('xyz', 'xy', 'x', 'none', 'yz'))]
        for a, ts in zip(agents, ('XYZ', 'XY', 'X', '', 'YZ')):
            for t in ts:
                a.add_component(TYPES[t](a, m))
        for a in agents:
            env.add_agent(a)
        tmpls = [('X', 'Y', 'Z', 'Y', 'X'), ('X', 'Y', 'X', 'Y', 'X', 'Y'), ('Y', 'Y', 'Y', 'Y', 'Y'), ('X', 'Y', 'Z', 'X', 'Y', 'Z', 'X'),
                 ('Z', 'Y', 'Z', 'Y', 'Z'), ('X', 'X', 'X', 'X', 'X', 'X', 'X', 'X', 'X')]
    elif case['how'] == 'compound_tags':
        # tags that are tuples (a species / role pair): a tag filter selects the agents with PRECISELY that tag
        env = m.environment
        agents = [Core.Agent('one', m, tag=1), Core.Agent('pair', m, tag=(1, 2)), Core.Agent('two', m, tag=2),
                  Core.Agent('riap', m, tag=(2, 1)), Core.Agent('pair2', m, tag=(1, 2))]
        for a, ts in zip(agents, ('X', 'X', 'XY', 'Y', 'XY')):
            for t in ts:
                a.add_component(TYPES[t](a, m))
        for a in agents:
            env.add_agent(a)
        tmpls = [(), ('X',), ('X', 'Y')]
        tags = (None, 1, 2, (1, 2), (2, 1), (2,), (1, 2, 3), 0)
    else:
        env = m.environment = (Envs.GridWorld(m, 3, 3) if case['how'] == 'grid_unpositioned' else
                               Envs.SpaceWorld(m, 3.0, 3.0, 0))
        types['P'] = PC
        agents = [Core.Agent(k, m, tag=t) for k, t in (('a', 0), ('b', 1), ('c', 0), ('d', 1))]
        agents[0].add_component(X(agents[0], m))
        agents[1].add_component(X(agents[1], m))
        agents[3].add_component(Y(agents[3], m))
        for i, a in enumerate(agents):
            env.add_agent(a, i % 3, i // 3)
        for a in (agents[1], agents[3]):      # b and d stay in the world but no longer carry a position
            try:
                a.remove_component(PC)
            except Exception:      # noqa - a library that refuses this leaves them positioned: the filter below follows
                pass
        tmpls = [(), ('P',), ('P', 'X'), ('X', 'P'), ('Y', 'P'), ('X',), ('P', 'P'), ('P', 'X', 'Y')]
    n = 0
    real = m.random
    for tmpl in tmpls:
        targs = [types[t] for t in tmpl]
        for tag in (tags if case['how'] in ('compound_tags', 'falsy_tags', 'string_tags') else (None, 0, 1, 'np1', 2)):
            kw = {} if tag is None else {'tag': tag_value(tag)}
            exp = [a for a in agents if all(T in a.components for T in targs) and (tag is None or a.tag == tag_value(tag))]
            what = f'{case["how"]}: template {list(tmpl)} tag {tag}'
            got = env.get_agents(*targs, **kw)
            n += 1
            if not isinstance(got, list) or len(got) != len(exp) or any(g is not e for g, e in zip(got, exp)):
                raise Violation(f'{what}: get_agents differs from the agents that carry every listed component',
                                expected=[a.id for a in exp], observed=[getattr(a, 'id', repr(a)) for a in got])
            picks = set()

            def pick(rng):
                m.random = rng
                return env.get_random_agent(*targs, **kw)
            for script, res, rng in enumerate_scripts(pick, max_draws=3):
                n += 1
                if (res is None) != (not exp) or (res is not None and not any(res is e for e in exp)):
                    raise Violation(f'{what}: get_random_agent returned an agent outside the filter',
                                    expected=[a.id for a in exp], observed=getattr(res, 'id', None))
                if res is not None:
                    picks.add(res.id)
            if picks != {a.id for a in exp}:
                raise Violation(f'{what}: not every matching agent is reachable by get_random_agent',
                                expected=sorted(a.id for a in exp), observed=sorted(picks))

            def shuf(rng):
                m.random = rng
                return env.shuffle(*targs, **kw)
            for script, res, rng in enumerate_scripts(shuf):
                n += 1
                if sorted(a.id for a in res) != sorted(a.id for a in exp):
                    raise Violation(f'{what}: shuffle is not a permutation of the filtered agents',
                                    expected=[a.id for a in exp], observed=[a.id for a in res])
            m.random = real
    return n


def crowd_case(case):
    """A population of more than a thousand agents: every template x tag filter is the exact filter in joining order;
    64 seeded picks per filter stay inside it; a shuffle is a permutation of it."""
    from mc.engine.seams import reset_library
    reset_library()
    n = case['n']
    m = new_model(seed=case.get('seed', 0))
    env = m.environment
    agents = []
    for i in range(n):
        a = Core.Agent(f'c{i}', m, tag=i % 3)
        if i % 2 == 0:
            a.add_component(X(a, m))
        if i % 5 == 0:
            a.add_component(Y(a, m))
        if i % 200 == 3:
            a.add_component(Z(a, m))      # a rare type: a handful of carriers at joining time
        agents.append(a)
        env.add_agent(a)
    for i in range(1, n, 11):
        env.remove_agent(f'c{i}')
    res = [a for i, a in enumerate(agents) if not (i % 11 == 1)]
    for i in range(7, n, 97):
        # components attached AFTER the agent joined, of a type only few agents carry (Z) and of a common one (Y)
        a = agents[i]
        if a in res:
            if Z not in a.components:
                a.add_component(Z(a, m))
            if Y not in a.components:
                a.add_component(Y(a, m))
    agents[4].add_component(Z(agents[4], m))
    q = 0
    for tmpl in ((), ('X',), ('Y',), ('X', 'Y'), ('Y', 'X'), ('Z',), ('X', 'X'), ('Z', 'Y'), ('Z', 'X')):
        targs = [TYPES[t] for t in tmpl]
        for tag in (None, 0, 2, 'np1', 9):
            kw = {} if tag is None else {'tag': tag_value(tag)}
            exp = [a for a in res if all(T in a.components for T in targs) and (tag is None or a.tag == tag_value(tag))]
            got = env.get_agents(*targs, **kw)
            q += 1
            if not isinstance(got, list) or len(got) != len(exp) or any(g is not e for g, e in zip(got, exp)):
                raise Violation(f'{n} agents, template {list(tmpl)} tag {tag}: get_agents differs from the exact filter in '
                                f'joining order', expected=[a.id for a in exp[:6]], observed=[getattr(a, 'id', a) for a in got[:6]])
            ids = {id(a) for a in exp}
            for _ in range(12 if n < 5000 else 2):
                r = env.get_random_agent(*targs, **kw)
                if (r is None) != (not exp) or (r is not None and id(r) not in ids):
                    raise Violation(f'{n} agents, template {list(tmpl)} tag {tag}: get_random_agent outside the filter',
                                    observed=getattr(r, 'id', None))
            s = env.shuffle(*targs, **kw)
            if len(s) != len(exp) or {id(a) for a in s} != ids:
                raise Violation(f'{n} agents, template {list(tmpl)} tag {tag}: shuffle is not a permutation of the filter',
                                expected=len(exp), observed=len(s))
    return q * 14


def shrunk_case(case):
    """A population that peaked (90 / 300 agents) and shrank to a handful, some of the survivors carrying no component at
    all: every answer of the generator is enumerated - each survivor matching the filter is reachable by a pick, nobody
    else is."""
    from mc.engine.seams import reset_library
    reset_library()
    peak, keep = case['peak'], case['keep']
    m = new_model(seed=1)
    env = m.environment
    agents = []
    for i in range(peak):
        a = Core.Agent(f's{i}', m, tag=i % 2)
        if i % 3 == 1:
            a.add_component(X(a, m))
        if i % 4 == 1:
            a.add_component(Y(a, m))
        agents.append(a)
        env.add_agent(a)
    stay = set(range(0, peak, max(1, peak // keep)))          # every k-th agent survives (some bare, some with X / Y)
    order = [i for i in range(peak) if i not in stay]
    if case['leave'] == 'back_to_front':
        order.reverse()
    for i in order:
        env.remove_agent(f's{i}')
    res = [a for i, a in enumerate(agents) if i in stay]
    real = m.random
    n = 0
    for tmpl in ((), ('X',), ('Y',), ('X', 'Y')):
        targs = [TYPES[t] for t in tmpl]
        for tag in (None, 0, 1):
            kw = {} if tag is None else {'tag': tag}
            exp = [a for a in res if all(T in a.components for T in targs) and (tag is None or a.tag == tag)]
            got = env.get_agents(*targs, **kw)
            if len(got) != len(exp) or any(g is not e for g, e in zip(got, exp)):
                raise Violation(f'{len(res)} survivors of {peak}: template {list(tmpl)} tag {tag}: get_agents',
                                expected=[a.id for a in exp], observed=[getattr(a, 'id', a) for a in got])
            picks = set()

            def pick(rng):
                m.random = rng
                return env.get_random_agent(*targs, **kw)
            for script, r, rng in enumerate_scripts(pick, max_draws=3):
                n += 1
                if (r is None) != (not exp) or (r is not None and not any(r is e for e in exp)):
                    raise Violation(f'{len(res)} survivors of {peak}: template {list(tmpl)} tag {tag}: get_random_agent '
                                    f'returned an agent outside the filter', observed=getattr(r, 'id', None))
                if r is not None:
                    picks.add(r.id)
            m.random = real
            if picks != {a.id for a in exp}:
                raise Violation(f'{len(res)} survivors of a population of {peak} (the others left {case["leave"]}): template '
                                f'{list(tmpl)} tag {tag}: not every matching agent is reachable by get_random_agent',
                                expected=sorted(a.id for a in exp), observed=sorted(picks))
    return n


def in_system_case(case):
    """Queries made from inside one System.execute(): the same query is repeated after an agent was re-tagged, after a
    component was attached to / detached from a resident, and after an agent joined - each answer reflects the
    environment at the time of the call."""
    from mc.engine.seams import reset_library
    reset_library()
    m = new_model(seed=1)
    env = m.environment
    spec = POOLS[case['pool']]
    agents = {}
    for key, comps, tag in spec:
        a = Core.Agent(key, m) if tag is None else Core.Agent(key, m, tag=tag)
        for t in comps:
            a.add_component(TYPES[t](a, m))
        agents[key] = a
        if key != spec[-1][0]:
            env.add_agent(a)
    late = agents[spec[-1][0]]
    failures = []

    def ref(tmpl, tag):
        return [a for a in env if all(TYPES[t] in a for t in tmpl) and (tag is None or a.tag == tag)]

    class Sys(Core.System):
        def execute(self):
            first = agents[spec[0][0]]
            steps = [lambda: None,
                     lambda: setattr(first, 'tag', 1 if first.tag != 1 else 0),
                     lambda: first.add_component(Z(first, m)),
                     lambda: first.remove_component(Z),
                     lambda: env.add_agent(late),
                     lambda: setattr(late, 'tag', 5),
                     lambda: env.remove_agent(spec[1][0])]
            for i, step in enumerate(steps):
                step()
                for tmpl in ((), ('X',), ('Z',), ('X', 'Y')):
                    for tag in (None, 0, 1, 5):
                        kw = {} if tag is None else {'tag': tag}
                        got = env.get_agents(*[TYPES[t] for t in tmpl], **kw)
                        if got != ref(tmpl, tag):
                            failures.append((i, tmpl, tag, [a.id for a in ref(tmpl, tag)], [a.id for a in got]))
                        pick = env.get_random_agent(*[TYPES[t] for t in tmpl], **kw)
                        if (pick is None) != (not ref(tmpl, tag)) or (pick is not None and pick not in ref(tmpl, tag)):
                            failures.append((i, tmpl, tag, 'pick', getattr(pick, 'id', None)))
                        sh = env.shuffle(*[TYPES[t] for t in tmpl], **kw)
                        if sorted(a.id for a in sh) != sorted(a.id for a in ref(tmpl, tag)):
                            failures.append((i, tmpl, tag, 'shuffle', [a.id for a in sh]))

    m.systems.add_system(Sys('s', m))
    m.execute()
    if failures:
        i, tmpl, tag = failures[0][:3]
        raise Violation(f'inside System.execute, after change #{i} (0 none, 1 re-tag, 2 attach, 3 detach, 4 join, 5 re-tag '
                        f'newcomer, 6 leave): query template {list(tmpl)} tag {tag} does not reflect the environment',
                        expected=failures[0][3], observed=failures[0][4])
    return 7 * 16


def class_churn_case(case):
    """Component classes come and go (defined, used in a model, dropped, garbage collected); a template naming a type
    nobody has matches nobody, one naming a type somebody has matches exactly those agents."""
    import gc
    from mc.engine.seams import reset_library
    reset_library()
    keep = []
    n = 0
    for r in range(case['rounds']):
        m = new_model(seed=r)
        env = m.environment
        # an early class used only by a throw-away agent, then a class the resident agents carry
        E = type(f'Early{r}', (Core.Component,), {})
        tmp = Core.Agent('tmp', m)
        tmp.add_component(E(tmp, m))
        K = type(f'Keep{r}', (Core.Component,), {})
        a, b = Core.Agent('a', m), Core.Agent('b', m)
        a.add_component(K(a, m))
        b.add_component(K(b, m))
        env.add_agent(a)
        env.add_agent(b)
        del tmp, E
        gc.collect()            # the early class is gone; the residents' class lives on
        N = type(f'New{r}', (Core.Component,), {})         # defined afterwards; nobody carries it yet
        for stage in ('nobody has N', 'b has N'):
            if stage == 'b has N':
                b.add_component(N(b, m))
            exp_n = ['b'] if stage == 'b has N' else []
            for tmpl, exp in (((N,), exp_n), ((K,), ['a', 'b']), ((K, N), exp_n), ((N, K), exp_n)):
                got = [x.id for x in env.get_agents(*tmpl)]
                n += 1
                if got != exp:
                    raise Violation(f'round {r} ({stage}): template {[t.__name__ for t in tmpl]} after an earlier '
                                    f'component class was garbage collected', expected=exp, observed=got)
                pick = env.get_random_agent(*tmpl)
                if (pick is None) != (not exp) or (pick is not None and pick.id not in exp):
                    raise Violation(f'round {r} ({stage}): random pick for template {[t.__name__ for t in tmpl]}',
                                    expected=exp, observed=getattr(pick, 'id', None))
        if r % 2:
            keep.append((m, K))        # some models and classes stay alive, others are dropped
        del m, env, a, b, K, N
        gc.collect()
    return n


def detached_env_case(case):
    """An environment that is not (or no longer) the model's current one answers queries about its OWN agents as they
    are now - also after components were attached / detached / tags changed following an earlier query."""
    from mc.engine.seams import reset_library
    reset_library()
    m = new_model(seed=1)
    if case['how'] == 'second':
        env = Core.Environment(m)
    elif case['how'] == 'replaced':
        env = m.environment
        m.set_environment(Core.Environment(m))
    else:
        env = Core.Environment(None)
        env.set_model(m)
    a, b = Core.Agent('a', m), Core.Agent('b', m, tag=1)
    a.add_component(X(a, m))
    env.add_agent(a)
    env.add_agent(b)

    def ask(what):
        for tmpl in ((), (X,), (Y,), (X, Y)):
            for tag in (None, 0, 1):
                kw = {} if tag is None else {'tag': tag}
                exp = [x.id for x in (a, b) if all(t in x for t in tmpl) and (tag is None or x.tag == tag)]
                got = [x.id for x in env.get_agents(*tmpl, **kw)]
                if got != exp:
                    raise Violation(f'{case["how"]} environment, {what}: template {[t.__name__ for t in tmpl]} tag {tag}',
                                    expected=exp, observed=got)
                sh = sorted(x.id for x in env.shuffle(*tmpl, **kw))
                if sh != sorted(exp):
                    raise Violation(f'{case["how"]} environment, {what}: shuffle', expected=exp, observed=sh)
    ask('at first')
    b.add_component(X(b, m))
    ask('after b got X')
    a.add_component(Y(a, m))
    a.remove_component(X)
    ask('after a got Y and lost X')
    b.tag = 0
    ask('after b was re-tagged')
    return 4 * 12


# the cheap legs run once more under the runner's ambient configurations (python -O, other logger levels)
AMBIENT_LEGS = True


def run(ctx):
    extra = [{'leg': 'class_churn', 'rounds': 40}] + [{'leg': 'detached_env', 'how': h} for h in
                                                      ('second', 'replaced', 'modelless')]
    for case in extra:
        ctx.traces += 1
        try:
            fn = class_churn_case if case['leg'] == 'class_churn' else detached_env_case
            ctx.transitions += hbfs._guard(fn, case)
        except Violation as v:
            ctx.report(case, v)
            return
    ctx.leg('class_churn_and_detached_env', cases=len(extra))
    for how in ('class_component', 'odd_agents', 'derived_types', 'compound_tags', 'falsy_tags', 'falsy_component', 'string_tags',
                'foreign_component',
                'many_types',
                'long_templates',
                'grid_unpositioned', 'space_unpositioned'):
        case = {'leg': 'special_population', 'how': how}
        ctx.traces += 1
        try:
            ctx.transitions += hbfs._guard(special_population_case, case)
            ctx.outcome(('special', how))
        except Violation as v:
            ctx.report(case, v)
            return
    ctx.leg('special_population', cases=11)
    for peak, keep in ((90, 12), (300, 20)) if not ctx.small else ((90, 12),):
        for leave in ('front_to_back', 'back_to_front'):
            case = {'leg': 'shrunk', 'peak': peak, 'keep': keep, 'leave': leave}
            ctx.traces += 1
            try:
                ctx.transitions += hbfs._guard(shrunk_case, case)
            except Violation as v:
                ctx.report(case, v)
                return
    ctx.leg('shrunk', note='populations that peaked at 90 / 300 and shrank to a dozen: every pick enumerated')
    for n in ((130,) if ctx.small else (1300, 12000) if ctx.tier == 'quick' else (1300, 12000, 70000)):
        case = {'leg': 'crowd', 'n': n, 'seed': ctx.seed}
        ctx.traces += 1
        try:
            ctx.transitions += hbfs._guard(crowd_case, case)
            ctx.outcome(('crowd', case['n']))
        except Violation as v:
            ctx.report(case, v)
            return
    ctx.leg('crowd', note='1300 and 12000 (thorough also 70000) agents, 9 templates x 5 tag filters, seeded picks each '
                          '(membership only)')
    for p in POOLS:
        case = {'leg': 'in_system', 'pool': p}
        ctx.traces += 1
        try:
            ctx.transitions += hbfs._guard(in_system_case, case)
        except Violation as v:
            ctx.report(case, v)
            return
    ctx.leg('in_system', pools=len(POOLS))
    if ctx.small:
        return
    pools = (['p1', 'p2'] if ctx.tier == 'quick' else list(POOLS)) + ['p1#deep_copies']
    from mc.engine import par
    par.pmap(ctx, explore_pool, pools, procs=ctx.procs)


def explore_pool(ctx, p):
    if p.endswith('#deep_copies'):
        # every state within two operations, with the model deep-copied there and one more operation on the copy
        p = p.split('#')[0]
        r = hbfs.explore(ctx, Harness(p, ctx.seed), p + '_deep_copies', max_depth=2, procs=1,
                         case_extra={'seed': ctx.seed}, clone=True)
        ctx.leg(p + '_deep_copies', **r)
        return
    h = Harness(p, ctx.seed)
    r = hbfs.explore(ctx, h, p, max_depth=30, procs=1, case_extra={'seed': ctx.seed})
    ctx.leg(p, **r)
    if not r.get('fixpoint') and not r.get('aborted'):
        ctx.cap(f'{p}: fixpoint not reached')



def replay(case):
    if case['leg'] == 'special_population':
        hbfs._guard(special_population_case, case)
        return
    if case['leg'] == 'shrunk':
        hbfs._guard(shrunk_case, case)
        return
    if case['leg'] == 'crowd':
        hbfs._guard(crowd_case, case)
        return
    if case['leg'] == 'class_churn':
        hbfs._guard(class_churn_case, case)
        return
    if case['leg'] == 'detached_env':
        hbfs._guard(detached_env_case, case)
        return
    if case['leg'] == 'in_system':
        hbfs._guard(in_system_case, case)
        return
    hbfs.replay_case(Harness(case['config']['pool'], case.get('seed', 0)), case)
