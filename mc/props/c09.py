"""C09 - cell coordinates and cell ids are in one-to-one correspondence.

E2: every grid-world shape in the declared range x every coordinate triple inside and just outside the grid.
"""
import itertools

from mc.engine import hbfs, par
from mc.engine.report import Violation
from mc.engine.seams import reset_library, new_model

import ECAgent.Core as Core
import ECAgent.Environments as Envs

META = {
    'rule': 'full product shapes x coordinate triples in [-1, extent]^3; one world instance per shape; '
            'distinct_nontrivial counts distinct (shape, cells) bijections verified plus distinct lookup outcomes',
    'alphabet': {'generic shapes': 'extents {0..3}^3 quick, {0..4}^3 thorough', 'line': 'width 1..5 (1..8)',
                 '2-D grid': 'width,height in 1..4 (1..5)',
                 'coordinates': 'every triple with each coordinate in -1..max(extent,1) (inside and one step outside '
                                'on every side), plus ids computed for every in-range triple',
                 'cell component': 'v = 100x+10y+z (distinguishes every cell)',
                 'bystanders': 'three worlds of other shapes are built and used after the world under test',
                 'wrap_env': [False, True], 'long axes': 'line 40000, (0,33000,0); thorough also (0,0,70000), 300x300, (2,33000,0)',
                 'id calls': 'float coordinates first, then the same integers'},
    'bounds': {'quick': '64 + 5 + 16 shapes', 'thorough': '125 + 8 + 25 shapes'},
    'assumptions': ['a zero extent denotes a single layer at coordinate 0 (as the position table and the '
                    'neighbourhood code treat it)'],
}


def shapes(tier):
    n = 4 if tier == 'quick' else 5
    for d in itertools.product(range(n), repeat=3):
        yield ('discrete', list(d))
    for w in range(1, 6 if tier == 'quick' else 9):
        yield ('line', [w])
    for w in range(1, 5 if tier == 'quick' else 6):
        for h in range(1, 5 if tier == 'quick' else 6):
            yield ('grid', [w, h])


NARG = {'discrete': 3, 'line': 1, 'grid': 2}


class Slab(Envs.DiscreteWorld):
    """A user world that reports its own two axes (x and z) from the documented get_dimensions() hook."""

    def get_dimensions(self):
        return self.width, self.depth


class Column(Envs.DiscreteWorld):
    def get_dimensions(self):
        return self.depth


class Flipped(Envs.DiscreteWorld):
    def get_dimensions(self):
        return self.height, self.width, self.depth


class Mirrored(Envs.DiscreteWorld):
    """A user world that takes image-style list data bottom-up: lists handed to add_cell_component are reversed.  That
    is about the USER's components - the world's own position table is not the user's data."""

    def add_cell_component(self, name, generator):
        if isinstance(generator, list):
            generator = generator[::-1]
        return super().add_cell_component(name, generator)


SUBCLASSES = {'slab': Slab, 'column': Column, 'flipped': Flipped, 'mirrored': Mirrored}


def mk(model, kind, dims, wrap=False):
    if kind in SUBCLASSES:
        return SUBCLASSES[kind](model, *dims, wrap_env=wrap)
    if kind == 'discrete':
        return Envs.DiscreteWorld(model, *dims, wrap_env=wrap)
    if kind == 'line':
        return Envs.LineWorld(model, dims[0], wrap_env=wrap)
    return Envs.GridWorld(model, *dims, wrap_env=wrap)


def lookup(world, args):
    """get_cell written positionally, by keyword or mixed - chosen by the coordinates themselves."""
    names = ('x', 'y', 'z')
    style = (sum(abs(v) for v in args) + len(args)) % 3
    if style == 0:
        return world.get_cell(*args)
    if style == 1:
        return world.get_cell(**dict(zip(names, args)))
    return world.get_cell(args[0], **dict(zip(names[1:], args[1:])))


def check_shape(case):
    reset_library()
    kind, dims = case['kind'], case['dims']
    model = None if case.get('no_model') else new_model(seed=1)      # a world built without a model (as the library's
    world = mk(model, kind, dims, case.get('wrap', False))           # own tests build Environment(None))
    if case.get('bystanders', True):
        # other grid worlds of other shapes built (and used) afterwards in the same process must not disturb this one
        others = [Envs.GridWorld(new_model(seed=2), 3, 4), Envs.DiscreteWorld(new_model(seed=3), 2, 3, 2),
                  Envs.LineWorld(new_model(seed=4), 7)]
        for o in others:
            o.add_cell_component('v', lambda pos, cells: -1)
            o.get_cell(0)
    d3 = list(dims) + [0] * (3 - len(dims))
    ext = [max(e, 1) for e in d3]
    ncells = ext[0] * ext[1] * ext[2]
    if kind in ('line', 'grid') and world.get_dimensions() != (tuple(dims) if len(dims) > 1 else dims[0]):
        raise Violation('get_dimensions() differs from the constructor arguments', expected=dims,
                        observed=world.get_dimensions())
    world.add_cell_component('v', lambda pos, cells: 100 * pos[0] + 10 * pos[1] + pos[2])
    if len(world.cells) != ncells:
        raise Violation('number of cells differs from the product of the (single-layer) extents', expected=ncells,
                        observed=len(world.cells))
    ids = {}
    queries = 0
    only = case.get('only')
    for x in range(-1, ext[0] + 1):
        for y in range(-1, ext[1] + 1):
            for z in range(-1, ext[2] + 1):
                if only is not None and [x, y, z] != only:
                    continue
                queries += 1
                inside = 0 <= x < ext[0] and 0 <= y < ext[1] and 0 <= z < ext[2]
                c = {'xyz': [x, y, z]}
                if inside:
                    # the same coordinates as floats first (as a position component holds them): same number, and the
                    # integer call afterwards must still give a plain integer usable as a row index
                    fid = Envs.discrete_grid_pos_to_id(float(x), float(y), world.width, float(z), world.height)
                    cid = Envs.discrete_grid_pos_to_id(x, y, world.width, z, world.height)
                    # coordinates given as bools (x = True is the coordinate 1): the id is still a plain integer
                    if max(x, y, z) <= 1:
                        bid = Envs.discrete_grid_pos_to_id(bool(x), bool(y), world.width, bool(z), world.height)
                        if type(bid) is not int or bid != cid:
                            raise Violation(f'id of cell {x, y, z} given as bools: {bid!r}', expected=cid, observed=repr(bid))
                        brow = lookup(world, [bool(v) for v in [x, y, z][:NARG.get(kind, 3)]])
                        if tuple(brow['pos']) != (x, y, z):
                            raise Violation(f'get_cell with bool coordinates {x, y, z} on shape {dims} returned another cell')
                    if fid != cid or type(cid) is not int:
                        raise Violation(f'id of cell {x, y, z}: integer call gives {cid!r}, float call {fid!r}',
                                        expected='the same number, an int for int coordinates', observed=[cid, fid])
                    if not (isinstance(cid, int) and 0 <= cid < ncells):
                        raise Violation(f'id of in-range cell {x, y, z} is {cid}, outside 0..{ncells - 1}',
                                        expected=f'0..{ncells - 1}', observed=cid)
                    if cid in ids:
                        raise Violation(f'cells {ids[cid]} and {(x, y, z)} share id {cid}', expected='distinct ids',
                                        observed=cid)
                    ids[cid] = (x, y, z)
                    back = world.cells['pos'][cid]
                    if tuple(back) != (x, y, z):
                        raise Violation(f"cells['pos'][{cid}] is {tuple(back)}, the id was computed for {(x, y, z)}",
                                        expected=[x, y, z], observed=list(back))
                    args = [x, y, z][:NARG.get(kind, 3)]
                    try:
                        row = lookup(world, args)
                    except IndexError as e:
                        raise Violation(f'get_cell{tuple(args)} on shape {dims} raised IndexError for an in-range '
                                        f'cell', expected='the row of that cell', observed=str(e))
                    old = world.getCell(*args)
                    if tuple(old['pos']) != tuple(row['pos']) or old['v'] != row['v'] or \
                            Envs.discreteGridPosToID(x, y, world.width, z, world.height) != cid:
                        raise Violation(f'deprecated spellings getCell / discreteGridPosToID disagree with get_cell / '
                                        f'discrete_grid_pos_to_id at {(x, y, z)} on shape {dims}')
                    if tuple(row['pos']) != (x, y, z) or row['v'] != 100 * x + 10 * y + z:
                        raise Violation(f'get_cell{tuple(args)} returned another cell\'s row', expected=[x, y, z],
                                        observed=[list(row['pos']), int(row['v'])])
                else:
                    narg = NARG.get(kind, 3)
                    if any(v != 0 for v in [x, y, z][narg:]):
                        continue      # not expressible through this world's entry point
                    args = [x, y, z][:narg]
                    try:
                        row = lookup(world, args)
                    except IndexError:
                        continue
                    raise Violation(f'get_cell{tuple(args)} outside shape {dims} did not raise IndexError',
                                    expected='IndexError', observed=[list(row['pos'])])
    if only is None and kind != 'line':      # (also for the user subclasses: they take three coordinates)
        # trailing coordinates left out default to 0: get_cell(x) is the cell (x, 0, 0) - never "cell number x"
        for x in range(-1, ncells + 2):
            queries += 1
            try:
                row = world.get_cell(x)
            except IndexError:
                if 0 <= x < ext[0]:
                    raise Violation(f'get_cell({x}) on shape {dims} raised IndexError for the in-range cell ({x}, 0, 0)')
                continue
            if not (0 <= x < ext[0]) or tuple(row['pos']) != (x, 0, 0):
                raise Violation(f'get_cell({x}) (one argument) on shape {dims}', expected=[x, 0, 0] if 0 <= x < ext[0]
                                else 'IndexError', observed=list(row['pos']))
        if kind == 'discrete' or kind in SUBCLASSES:
            for x in range(ext[0]):
                for y in range(-1, ext[1] + 1):
                    queries += 1
                    try:
                        row = world.get_cell(x, y)
                    except IndexError:
                        if 0 <= y < ext[1]:
                            raise Violation(f'get_cell({x}, {y}) on shape {dims} raised IndexError for an in-range cell')
                        continue
                    if not (0 <= y < ext[1]) or tuple(row['pos']) != (x, y, 0):
                        raise Violation(f'get_cell({x}, {y}) (two arguments) on shape {dims}',
                                        expected=[x, y, 0] if 0 <= y < ext[1] else 'IndexError', observed=list(row['pos']))
    if only is None:
        # the table is the documented place to change cell values: a lookup afterwards shows the new value (and a row
        # handed out earlier, which the caller scribbles on, does not disturb it)
        narg = NARG.get(kind, 3)
        for cid, (x, y, z) in sorted(ids.items()):
            old_row = world.get_cell(*[x, y, z][:narg])
            try:
                old_row['v'] = -7
            except Exception:      # noqa - a read-only row is fine too
                pass
            world.cells.loc[cid, 'v'] = 5000 + cid
            row = world.get_cell(*[x, y, z][:narg])
            queries += 2
            if row['v'] != 5000 + cid or tuple(row['pos']) != (x, y, z):
                raise Violation(f'get_cell{(x, y, z)[:narg]} on shape {dims} after the cell\'s value was changed in the '
                                f'cells table', expected=5000 + cid, observed=int(row['v']))
    if only is None and sorted(ids) != list(range(ncells)):
        raise Violation('ids of in-range cells are not exactly 0..cells-1', expected=ncells, observed=len(ids))
    return queries, (kind, tuple(dims), len(ids))


HIST_SHAPES = [('line', [4]), ('grid', [3, 2]), ('discrete', [2, 0, 3]), ('discrete', [0, 2, 2]), ('discrete', [2, 2, 2])]


def hist_ops(kind, dims):
    """What can happen to a grid world between two lookups: cell components declared, declared again from a source of
    another element type, removed; an agent sent (move_to) to coordinates next to the grid - accepted on single-layer
    axes, which the spatial range check does not constrain - or moved about inside."""
    ops = [['level', how] for how in ('int', 'int10', 'float', 'str', 'gen', 'mixed')] + [['rain'], ['drop', 'level'], ['drop', 'rain']]
    # components whose names are not plain public identifiers
    ops += [['named', nm] for nm in ('soil type', 'class', '_hidden', '2nd crop')]
    ops.append(['rebind'])          # the table replaced by a copy of itself (env.cells = env.cells.copy(), to defragment it)
    d3 = list(dims) + [0] * (3 - len(dims))
    narg = NARG.get(kind, 3)
    for ax in range(narg):
        for v in (-1, max(d3[ax], 1)):
            p = [0, 0, 0]
            p[ax] = v
            ops.append(['walk', p[:narg]])
    ops.append(['walk', [max(d3[0], 1) - 1, 0, 0][:narg]])       # an ordinary in-grid destination
    return ops


def history_case(case):
    """A short history of such operations, then the full sweep: every in-range lookup returns that cell's current row
    with all its components' values, every coordinate outside the grid is rejected."""
    import numpy as np
    reset_library()
    kind, dims = case['kind'], case['dims']
    model = new_model(seed=1)
    world = mk(model, kind, dims, case.get('wrap', False))
    d3 = list(dims) + [0] * (3 - len(dims))
    ext = [max(e, 1) for e in d3]
    n = ext[0] * ext[1] * ext[2]
    narg = NARG.get(kind, 3)
    cols = {}
    walker = None
    for op in case['ops']:
        if op[0] == 'level':
            how = op[1]
            if how == 'int':
                src = np.arange(n, dtype=np.int64) + 1
            elif how == 'int10':
                src = np.arange(n, dtype=np.int64) * 10
            elif how == 'float':
                src = np.linspace(0.5, n - 0.5, n)
            elif how == 'str':
                src = ['clay' if i % 2 else 'sand' for i in range(n)]
            elif how == 'mixed':
                src = [[i + 1, 'water', 2.5, True][i % 4] if i else 1 for i in range(n)]      # numbers and strings side by side
            else:
                src = None
                world.add_cell_component('level', lambda pos, cells: pos[0] - pos[2] + 0.25 * pos[1])
                cols['level'] = [None] * n
                for z in range(ext[2]):
                    for y in range(ext[1]):
                        for x in range(ext[0]):
                            cols['level'][x + y * ext[0] + z * ext[0] * ext[1]] = x - z + 0.25 * y
            if src is not None:
                world.add_cell_component('level', src)
                cols['level'] = [v.item() if hasattr(v, 'item') else v for v in src]
        elif op[0] == 'rain':
            world.add_cell_component('rain', [i * i for i in range(n)])
            cols['rain'] = [i * i for i in range(n)]
        elif op[0] == 'drop':
            if op[1] not in cols:
                continue
            world.remove_cell_component(op[1])
            del cols[op[1]]
        elif op[0] == 'named':
            world.add_cell_component(op[1], [f'{op[1]}#{i}' for i in range(n)])
            cols[op[1]] = [f'{op[1]}#{i}' for i in range(n)]
        elif op[0] == 'rebind':
            world.cells = world.cells.copy()
        elif op[0] == 'walk':
            if walker is None:
                walker = Core.Agent('walker', model)
                world.add_agent(walker)
            try:
                world.move_to(walker, *op[1])
            except IndexError:
                pass        # refused: the walker stays where it was
        else:
            raise ValueError(op)
    queries = 0
    for x in range(-1, ext[0] + 1):
        for y in range(-1, ext[1] + 1):
            for z in range(-1, ext[2] + 1):
                inside = 0 <= x < ext[0] and 0 <= y < ext[1] and 0 <= z < ext[2]
                args = [x, y, z][:narg]
                if any(v != 0 for v in [x, y, z][narg:]):
                    continue
                queries += 1
                try:
                    row = lookup(world, args)
                except IndexError:
                    if inside:
                        raise Violation(f'after {case["ops"]}: get_cell{tuple(args)} on shape {dims} raised IndexError for an '
                                        f'in-range cell')
                    continue
                if not inside:
                    raise Violation(f'after {case["ops"]}: get_cell{tuple(args)} outside shape {dims} did not raise IndexError',
                                    expected='IndexError', observed=list(row['pos']))
                cid = x + y * ext[0] + z * ext[0] * ext[1]
                if tuple(row['pos']) != (x, y, z):
                    raise Violation(f'after {case["ops"]}: get_cell{tuple(args)} on shape {dims} returned another cell\'s row',
                                    expected=[x, y, z], observed=list(row['pos']))
                if sorted(row.index) != sorted(['pos'] + list(cols)):
                    raise Violation(f'after {case["ops"]}: the row of cell {(x, y, z)} on shape {dims} does not have exactly '
                                    f'the world\'s cell components', expected=sorted(['pos'] + list(cols)),
                                    observed=sorted(row.index))
                for name, vals in cols.items():
                    if row[name] != vals[cid] or (isinstance(vals[cid], (str, bool)) != isinstance(row[name], (str, bool, np.bool_))):
                        raise Violation(f'after {case["ops"]}: component {name!r} in the row of cell {(x, y, z)} on shape '
                                        f'{dims}', expected=vals[cid], observed=repr(row[name]))
    return queries, ('hist', kind, tuple(dims), tuple(sorted(cols)))


def history_cases(tier):
    depth = 2 if tier == 'quick' else 3
    for kind, dims in HIST_SHAPES:
        ops = hist_ops(kind, dims)
        for d in range(1, depth + 1):
            for seq in itertools.product(ops, repeat=d):
                # (a drop of something never declared is skipped inside: such sequences duplicate shorter ones)
                if any(o[0] == 'drop' and not any(p[0] == ('level' if o[1] == 'level' else 'rain') for p in seq[:i])
                       for i, o in enumerate(seq)):
                    continue
                yield {'leg': 'history', 'kind': kind, 'dims': dims, 'wrap': False, 'ops': [list(o) for o in seq]}


def big_shape(case):
    """One very long axis (beyond 2**15 cells): the bijection is checked on every cell, row lookups on every 251st cell
    and the last ones (the row lookup costs a pandas access each)."""
    reset_library()
    kind, dims = case['kind'], case['dims']
    world = mk(new_model(seed=1), kind, dims, False)
    d3 = list(dims) + [0] * (3 - len(dims))
    ext = [max(e, 1) for e in d3]
    n = ext[0] * ext[1] * ext[2]
    pos = world.cells['pos']
    if len(pos) != n:
        raise Violation('number of cells differs', expected=n, observed=len(pos))
    seen = 0
    for z in range(ext[2]):
        for y in range(ext[1]):
            for x in range(ext[0]):
                cid = Envs.discrete_grid_pos_to_id(x, y, world.width, z, world.height)
                if cid != seen or tuple(pos[cid]) != (x, y, z):
                    raise Violation(f'cell {x, y, z} of shape {dims}: id {cid}, table row {tuple(pos[cid]) if 0 <= cid < n else None}',
                                    expected=[seen, [x, y, z]], observed=cid)
                seen += 1
    narg = NARG.get(kind, 3)
    for cid in list(range(0, n, 251)) + [n - 2, n - 1]:
        p = tuple(pos[cid])
        row = world.get_cell(*p[:narg])
        if tuple(row['pos']) != p:
            raise Violation(f'get_cell{p[:narg]} on shape {dims} returned the row of {tuple(row["pos"])}')
    return n, (kind, tuple(dims), n)


def _verify_table(world, kind, dims, when):
    d3 = list(dims) + [0] * (3 - len(dims))
    ext = [max(e, 1) for e in d3]
    table = [(x, y, z) for z in range(ext[2]) for y in range(ext[1]) for x in range(ext[0])]
    got = [tuple(int(v) for v in p) for p in world.cells['pos']]
    if got != table:
        k = next((i for i, (a, b) in enumerate(zip(got, table)) if a != b), min(len(got), len(table)))
        raise Violation(f'{kind} world {dims} {when}: the position table differs from the cells in id order (x fastest, then y, '
                        f'then z) from id {k} on', expected=table[k:k + 3], observed=got[k:k + 3])
    narg = NARG.get(kind, 3)
    for cid in sorted({0, len(table) // 2, len(table) - 1}):
        p = table[cid]
        if Envs.discrete_grid_pos_to_id(p[0], p[1], world.width, p[2], world.height) != cid or \
                tuple(world.get_cell(*p[:narg])['pos']) != p:
            raise Violation(f'{kind} world {dims} {when}: cell {p} is not row {cid}')
    return len(table)


def sequence_case(case):
    """Several worlds built one after the other in ONE process (nothing is reset in between): each has its own table of
    cells, right after it was built and still when all the others exist."""
    reset_library()
    built = []
    n = 0
    for kind, dims in case['worlds']:
        w = mk(new_model(seed=1), kind, dims, False)
        n += _verify_table(w, kind, dims, 'right after it was built (after %d earlier worlds)' % len(built))
        built.append((w, kind, dims))
        if not case.get('keep'):
            built = built[-1:]        # the earlier worlds are dropped (and may be collected)
    for w, kind, dims in built:
        n += _verify_table(w, kind, dims, 'after %d more worlds were built' % (len(case['worlds']) - 1))
    return n, ('sequence', len(case['worlds']), n)


def sequence_cases():
    sides = (1, 2, 3, 10, 11, 12, 21, 23, 101, 110, 111)
    grids = [('grid', [a, b]) for a in sides for b in sides]
    for keep in (True, False):
        yield {'leg': 'sequence', 'worlds': grids, 'keep': keep}
        yield {'leg': 'sequence', 'worlds': grids[::-1], 'keep': keep}
        yield {'leg': 'sequence', 'keep': keep,
               'worlds': [('line', [1100]), ('grid', [80, 2]), ('discrete', [3, 2, 2]), ('line', [111]), ('grid', [11, 10]),
                          ('grid', [1, 110]), ('discrete', [1, 1, 10]), ('discrete', [11, 0, 0]), ('grid', [2, 1030]),
                          ('grid', [40, 3]), ('discrete', [2, 2, 1030]), ('discrete', [5, 4, 3]), ('line', [2050]),
                          ('grid', [1030, 2]), ('grid', [7, 7])]}
        yield {'leg': 'sequence', 'keep': keep,
               'worlds': [('discrete', [a, b, c]) for a in (1, 2, 11) for b in (0, 1, 12) for c in (0, 1, 2, 21)]}


def chunk_fn(ctx, chunk):
    for case in chunk:
        ctx.traces += 1
        ctx.states += 1
        try:
            q, out = hbfs._guard({'big': big_shape, 'history': history_case, 'sequence': sequence_case}.get(case['leg'], check_shape), case)
            ctx.transitions += q
            ctx.outcome(out)
        except Violation as v:
            ctx.report(case, v)
            if ctx.full():
                return


# the cheap legs run once more under the runner's ambient configurations (python -O, other logger levels)
AMBIENT_LEGS = True


def run(ctx):
    cases = [{'leg': 'shape', 'kind': k, 'dims': d, 'wrap': w} for k, d in shapes(ctx.tier) for w in (False, True)]
    # user worlds whose get_dimensions() reports something else than (width, height, depth)
    cases += [{'leg': 'shape', 'kind': k, 'dims': d, 'wrap': w} for w in (False, True) for k, d in
              (('slab', [3, 0, 2]), ('slab', [2, 0, 3]), ('slab', [3, 2, 4]), ('column', [0, 0, 4]), ('column', [2, 1, 3]),
               ('flipped', [3, 2, 2]), ('flipped', [1, 4, 2]), ('mirrored', [3, 2, 2]), ('mirrored', [2, 0, 3]))]
    cases += [{'leg': 'shape', 'kind': k, 'dims': d, 'wrap': False, 'no_model': True} for k, d in
              (('line', [4]), ('grid', [3, 2]), ('discrete', [2, 0, 3]), ('discrete', [2, 2, 2]))]
    cases += [{'leg': 'big', 'kind': 'line', 'dims': [40000]}, {'leg': 'big', 'kind': 'discrete', 'dims': [0, 33000, 0]},
              {'leg': 'big', 'kind': 'discrete', 'dims': [0, 0, 70000]}, {'leg': 'big', 'kind': 'discrete', 'dims': [1, 1, 66000]},
              {'leg': 'big', 'kind': 'discrete', 'dims': [48, 40, 36]}]
    if ctx.small:
        cases = [c for c in cases if c['leg'] != 'big']
    if not ctx.small:
        cases += list(sequence_cases())
    hist = [c for c in history_cases(ctx.tier) if not ctx.small or len(c['ops']) == 1]
    cases += hist
    if ctx.tier == 'thorough':
        cases += [{'leg': 'big', 'kind': 'discrete', 'dims': [0, 0, 2 ** 17 + 5]}, {'leg': 'big', 'kind': 'grid', 'dims': [300, 300]},
                  {'leg': 'big', 'kind': 'discrete', 'dims': [2, 33000, 0]}]
    par.pmap(ctx, chunk_fn, [cases[i::ctx.procs * 2] for i in range(ctx.procs * 2)], procs=ctx.procs)
    for c in (cases[0], cases[27], cases[-1]):
        ctx.sample(c)
    ctx.leg('shapes', shapes=len(cases) - len(hist))
    ctx.leg('history', sequences=len(hist), note='every sequence of <= 2 (thorough 3) declarations / redeclarations / removals '
                                                 'of cell components and agent walks next to the grid, then the full sweep')


def replay(case):
    hbfs._guard({'big': big_shape, 'history': history_case, 'sequence': sequence_case}.get(case['leg'], check_shape), case)
