"""C14 - a parameter list builds the exact Cartesian product, once each.

E1 history BFS over declarations (constructor dict, add_parameter, remove_parameter, rejected variants); in every
reached state build() is called twice (the first result is vandalised in between) and compared with an
independent nested-loop product.
"""
import itertools

import numpy as np

from mc.engine import hbfs
from mc.engine.report import Violation
from mc.engine.seams import Canon

import enum

from ECAgent.Batching import ParameterList
import ECAgent.Core as Core

class Policy(enum.Enum):
    """A class that is itself a re-iterable collection (of its members)."""
    GREEDY = 'greedy'
    LAZY = 'lazy'
    FAIR = 'fair'


class Strategy:
    """A class that cannot be iterated: one value."""


VALUES = {
    'enum_class': lambda: Policy,
    'plain_class': lambda: Strategy,
    'int': lambda: 7,
    'str': lambda: 'xy',
    'empty': lambda: [],
    'one': lambda: [1],
    'two': lambda: [1, 2],
    'tuple_rep': lambda: (1, 1),
    'range2': lambda: range(2),
    'nparr': lambda: np.array([1, 2]),
    'none': lambda: None,
    'strs': lambda: ['p', 'qq'],
    'nested': lambda: [[1, 2], 'ab'],
    'np2d': lambda: np.array([[1, 2], [3, 4], [5, 6]]),          # a 2-D array: its values are its rows
    'np0d': lambda: np.array(5),                                 # a 0-d array cannot be iterated: a single value
    'npdt': lambda: np.array(['2021-03-04T05:06:07.000000008', '2021-03-05'], dtype='datetime64[ns]'),
    'tuple_f': lambda: (1.0, 1.0),                               # equal to tuple_rep element by element, but floats
    'legacy_seq': lambda: LegacySeq([4, 5, 6]),                  # iterable through __len__/__getitem__ only
    # collections of exactly one value that is itself a collection (a grid shape, a list of seeds, an empty list)
    'one_tuple': lambda: [(10, 20)],
    'one_list': lambda: ([11, 12, 13],),
    'one_empty': lambda: [[]],
    # nested collections of unequal lengths (layer sizes): each element is one value
    'zero_pos': lambda: [0.0, 1.5],
    'zero_neg': lambda: [-0.0, 1.5],
    'ragged': lambda: [[8], [8, 8], [16, 8, 4]],
    'ragged_t': lambda: ((3,), (3, 3)),
    # a collection of values that are all falsy - each is a value like any other (None: 'use the default', 0, False, '')
    'falsy': lambda: [None, 0, False, '', 0.0],
}
EXPANDED = {
    'enum_class': [Policy.GREEDY, Policy.LAZY, Policy.FAIR], 'plain_class': [Strategy],
    'int': [7], 'str': ['xy'], 'empty': [], 'one': [1], 'two': [1, 2], 'tuple_rep': [1, 1], 'range2': [0, 1],
    'nparr': [1, 2], 'none': [None], 'strs': ['p', 'qq'], 'nested': [[1, 2], 'ab'], 'np2d': [[1, 2], [3, 4], [5, 6]], 'np0d': [5],
    'npdt': ['dt:2021-03-04T05:06:07.000000008', 'dt:2021-03-05T00:00:00.000000000'],
    'tuple_f': [1.0, 1.0], 'legacy_seq': [4, 5, 6], 'one_tuple': [[10, 20]], 'one_list': [[11, 12, 13]], 'one_empty': [[]],
    'ragged': [[8], [8, 8], [16, 8, 4]], 'ragged_t': [[3], [3, 3]], 'zero_pos': [0.0, 1.5], 'zero_neg': [-0.0, 1.5],
    'falsy': [None, 0, False, '', 0.0],
}
NAMES = ['pa', 'pb', 'pc']
STARTS = {
    'empty': None,
    'empty_dict': {},
    'dict_ab': {'pa': 'two', 'pb': 'str'},
    'dict_ba': {'pb': 'tuple_rep', 'pa': 'range2'},
    # names that mean something elsewhere in the library (keys grid_search adds to its results, bookkeeping words)
    'dict_special': {'score': 'two', 'records': 'one', 'index': 'str'},
}
SPECIAL_NAMES = ['score', 'records', 'index', 'self']

META = {
    'rule': 'BFS over declaration histories per constructor variant; build() twice in every state; '
            'distinct_nontrivial counts distinct (declaration, product) observations',
    'alphabet': {'names': NAMES + [3, 'zz (unknown, for removal)'], 'values': sorted(VALUES),
                 'constructor variants': STARTS,
                 'ops': 'add_parameter(name, value) incl. taken names and the non-string name 3, '
                        'remove_parameter(name) incl. unknown'},
    'bounds': {'quick': 'values int,str,empty,one,two,tuple_rep,range2,nparr,none; depth 3 (every declaration of up '
                        'to 3 parameters from the empty start)', 'thorough': 'all values; fixpoint'},
    'assumptions': ['collections are re-iterable (no one-shot generators), as the quantifier says',
                    'element equality after converting numpy scalars to Python scalars'],
}


class LegacySeq:
    """A sequence in the old protocol: indexable and sized, no __iter__."""

    def __init__(self, items):
        self._items = list(items)

    def __len__(self):
        return len(self._items)

    def __getitem__(self, i):
        return self._items[i]      # IndexError ends the iteration


def _kind(v):
    """What kind of value this is (an equal value of another kind is not the declared value)."""
    if isinstance(v, (bool, np.bool_)):
        return 'bool'
    if isinstance(v, (int, np.integer)):
        return 'int'
    if isinstance(v, (float, np.floating)):
        import math
        return 'float-' if (v == 0 and math.copysign(1.0, v) < 0) else 'float'       # -0.0 is not 0.0
    if isinstance(v, np.datetime64) or (isinstance(v, str) and v.startswith('dt:')):
        return 'dt'
    if isinstance(v, str):
        return 'str'
    if v is None:
        return 'none'
    if isinstance(v, np.ndarray) and v.ndim == 0:
        return _kind(v.item())
    if isinstance(v, (list, tuple, np.ndarray)):
        return ['seq'] + [_kind(x) for x in (v.tolist() if isinstance(v, np.ndarray) and v.dtype.kind != 'M' else v)]
    return type(v).__name__


def product(decl):
    """Independent reference: recursion over the declaration order, first parameter slowest."""
    if not decl:
        return [{}]
    (name, vk), rest = decl[0], decl[1:]
    out = []
    for v in EXPANDED[vk]:
        for tail in product(rest):
            d = {name: v}
            d.update(tail)
            out.append(d)
    return out


def _py(v):
    if isinstance(v, np.datetime64):
        return 'dt:' + str(v.astype('datetime64[ns]'))      # a timestamp stays a timestamp (not its integer count)
    if isinstance(v, np.generic):
        return v.item()
    if isinstance(v, np.ndarray):
        return v.tolist()
    if isinstance(v, (list, tuple)):
        return [_py(x) for x in v]
    return v


class World:
    pass


class AnyModel(Core.Model):
    """Takes whatever parameters it is given."""

    def __init__(self, **kw):
        super().__init__()
        self.kw = kw


def zero_score(model):
    return 0.0


class Harness:
    def __init__(self, start, values):
        self.start = start
        self.values = list(values)
        self.config = {'start': start, 'values': self.values}
        self.cn = Canon()
        self.names = SPECIAL_NAMES if start == 'dict_special' else NAMES

    def fresh(self):
        w = World()
        spec = STARTS[self.start]
        if spec is None:
            w.pl = ParameterList()
            w.decl = []
        else:
            # the caller keeps its dict and builds a second list from the same object: neither the dict nor the
            # other list may change when one list is edited
            # (the keys are run-time strings - read from a file, built in a loop - not the interned literals of this module)
            w.src = {(k + '_')[:-1]: VALUES[v]() for k, v in spec.items()}
            w.src_keys = list(w.src)
            w.pl = ParameterList(w.src)
            w.pl2 = ParameterList(w.src)
            w.decl = [(k, v) for k, v in spec.items()]
            w.decl2 = list(w.decl)
        w.last = None
        return w

    def ops(self, w):
        ops = []
        for n in self.names:
            ops += [['add', n, v] for v in self.values]
            ops.append(['remove', n])
        ops += [['add', 3, 'int'], ['remove', 'zz'], ['ctor_bad'], ['build']]
        if w.decl and 'self' not in [n for n, _ in w.decl]:
            ops.append(['use'])
        if hasattr(w, 'src'):
            ops.append(['edit_source'])
        return ops

    def apply(self, w, op):
        if op[0] in ('add', 'remove') and isinstance(op[1], str):
            # every call passes its OWN string object (equal to, never identical with, the one used before): names
            # computed at run time (f-strings, joins) are not the interned literals of the source
            op = [op[0], (op[1] + '_')[:-1]] + list(op[2:])
        names = [n for n, _ in w.decl]
        if op[0] == 'build':
            # building is an operation of its own: whatever build() remembers must not show in later builds
            self.check(w)
            return
        if op[0] == 'use':
            # the list is handed to the library's own consumers (a search and a batch, one process): what they do with the
            # parameter sets they evaluate is their business, the declaration stays what it is
            from ECAgent.Batching import grid_search, batch_run
            for consumer in (lambda: grid_search(AnyModel, w.pl, zero_score, max_timesteps=1),
                             lambda: batch_run(AnyModel, w.pl, max_timesteps=1)):
                try:
                    consumer()
                except Exception:      # noqa - e.g. a search over an empty product: not this property's matter
                    pass
            return
        if op[0] == 'edit_source':
            # the caller goes on using ITS dictionary (e.g. to derive the next list): the lists built from it earlier
            # keep the declaration they were given
            if 'late' in w.src:
                del w.src['late']
                k0 = next(iter(w.src), None)
                if k0 is not None:
                    w.src[k0] = ['changed', 'by', 'caller']
            else:
                w.src['late'] = [1, 2, 3]
            w.src_keys = list(w.src)
            w.src_edits = getattr(w, 'src_edits', 0) + 1
            return
        if op[0] == 'add':
            name, vk = op[1], op[2]
            if not isinstance(name, str):
                self._rejected(w, lambda: w.pl.add_parameter(name, VALUES[vk]()), AttributeError, f'add of name {name!r}')
            elif name in names:
                self._rejected(w, lambda: w.pl.add_parameter(name, VALUES[vk]()), KeyError, f'add of taken name {name}')
            else:
                w.pl.add_parameter(name, VALUES[vk]())
                w.decl.append((name, vk))
        elif op[0] == 'remove':
            if op[1] in names:
                w.pl.remove_parameter(op[1])
                w.decl = [d for d in w.decl if d[0] != op[1]]
            else:
                self._rejected(w, lambda: w.pl.remove_parameter(op[1]), KeyError, f'remove of unknown {op[1]}')
        elif op[0] == 'ctor_bad':
            try:
                ParameterList({'a': 1, 3: 2})
            except AttributeError:
                return
            raise Violation('constructor accepted a non-string parameter name', expected='AttributeError')

    def _rejected(self, w, call, exc, what):
        try:
            call()
        except exc:
            # "without effect" is judged by what the list builds afterwards (check() runs after every operation and
            # compares with the unchanged reference declaration), not by its private fields
            return
        raise Violation(f'{what}: accepted', expected=exc.__name__, observed='no exception')

    def check(self, w):
        if hasattr(w, 'src'):
            if list(w.src) != w.src_keys:
                raise Violation('editing a ParameterList changed the dictionary it was constructed from',
                                expected=w.src_keys, observed=list(w.src))
            other = [{k: _py(v) for k, v in d.items()} for d in w.pl2.build()]
            if other != product(w.decl2):
                raise Violation('a second ParameterList built from the same dictionary no longer builds the product of what the '
                                'dictionary declared when the list was constructed',
                                expected=product(w.decl2)[:6], observed=other[:6])
        exp = product(w.decl)
        r1 = w.pl.build()
        self._compare(w, r1, exp, 'first build')
        # vandalise the first result
        for d in r1:
            for k in list(d):
                d[k] = 'junk'
            d['extra'] = 1
        r1.append({'x': 1})
        r2 = w.pl.build()
        self._compare(w, r2, exp, 'second build (after modifying the first result)')
        if any(a is b for a in r1 for b in r2):
            raise Violation('two builds share a dictionary')
        if len({id(d) for d in r2}) != len(r2):
            raise Violation('one build returned the same dictionary object twice')
        r3 = w.pl.build()
        self._compare(w, r3, exp, 'third build')       # building never changes the declaration
        w.last = (tuple(w.decl), len(exp))

    def _compare(self, w, got, exp, what):
        if not isinstance(got, list):
            raise Violation(f'{what}: not a list', observed=repr(got))
        norm = [{k: _py(v) for k, v in d.items()} for d in got]
        kinds = dict(w.decl)
        for d in got:
            for k, v in d.items():
                if kinds.get(k) == 'np2d' and not isinstance(v, np.ndarray):
                    # the values of a 2-D array are its rows: each combination carries a row, not a re-made list
                    raise Violation(f'{what} of declaration {w.decl}: the value of {k} is a {type(v).__name__}, the '
                                    f'declared values are the rows of a 2-D array', expected='ndarray row', observed=repr(v))
        if norm == exp:
            gk = [{k: _kind(v) for k, v in d.items()} for d in got]
            ek = [{k: _kind(v) for k, v in d.items()} for d in exp]
            if gk != ek:
                raise Violation(f'{what} of declaration {w.decl}: values equal the declared ones but are of another kind '
                                f'(e.g. floats where ints were declared)', expected=ek[:6], observed=gk[:6])
        if norm != exp or any(list(d) != [n for n, _ in w.decl] for d in got):
            raise Violation(f'{what} of declaration {w.decl} differs from the Cartesian product (first-declared '
                            f'slowest, once each)', expected=exp[:12], observed=norm[:12])

    def canon(self, w):
        return self.cn(w.pl)

    def refstate(self, w):
        return (tuple(w.decl), min(getattr(w, 'src_edits', 0), 2))

    def outcome(self, w):
        return w.last


def redeclare_case(case):
    """A name is declared with one value, built, removed, declared again with another value (possibly equal element by
    element but of another kind) and built again - in the same list and in a second list: each build yields the values
    of the declaration current at that moment."""
    h = Harness('empty', [case['v1'], case['v2']])
    w = hbfs.fresh(h)
    n = 0
    for op in (['add', 'pa', case['v1']], ['build'], ['remove', 'pa'], ['add', 'pa', case['v2']], ['build'],
               ['add', 'pb', case['v1']], ['build']):
        h.apply(w, op)
        h.check(w)
        n += 1
    other = ParameterList()
    other.add_parameter('pa', VALUES[case['v1']]())
    got = other.build()
    w2 = World()
    w2.decl = [('pa', case['v1'])]
    h._compare(w2, got, product(w2.decl), 'build of a second list declaring the same name')
    return n


def many_parameters_case(case):
    """A declaration with very many parameters (most of them single-valued): the product still has every name, in
    declaration order, and exactly the combinations of the few multi-valued ones."""
    n = case['n']
    pl = ParameterList()
    names = []
    for i in range(n):
        name = f'p{i:04d}'
        if i in (3, n // 2):
            pl.add_parameter(name, [i, -i])
        elif i % 97 == 0:
            pl.add_parameter(name, (i,))
        else:
            pl.add_parameter(name, i)
        names.append(name)
    got = pl.build()
    exp = []
    for a in (3, -3):
        for b in (n // 2, -(n // 2)):
            d = {f'p{i:04d}': i for i in range(n)}
            d['p0003'], d[f'p{n // 2:04d}'] = a, b
            exp.append(d)
    if not isinstance(got, list) or len(got) != 4:
        raise Violation(f'{n} parameters, two of them two-valued: number of combinations', expected=4,
                        observed=len(got) if isinstance(got, list) else repr(got)[:80])
    for g, e in zip(got, exp):
        if list(g) != names:
            raise Violation(f'{n} parameters: a combination does not list every parameter in declaration order',
                            expected=names[:5], observed=list(g)[:5])
        if {k: _py(v) for k, v in g.items()} != e:
            bad = next(k for k in names if _py(g[k]) != e[k])
            raise Violation(f'{n} parameters: value of {bad} in a combination', expected=e[bad], observed=repr(g[bad]))
    if pl.build() != got:
        raise Violation(f'{n} parameters: second build differs from the first')
    return n


class PercentGrid(dict):
    """A declaration kept as a dict subclass: stores percentages and hands out fractions, iterates its keys alphabetically
    (or in reverse).  What it hands out through d[key] for the keys it iterates over is what it declares."""
    reverse = False

    def __getitem__(self, key):
        values = super().__getitem__(key)
        return [v / 100 for v in values] if isinstance(values, list) else values

    def __iter__(self):
        return iter(sorted(super().keys(), reverse=self.reverse))


def mapping_case(case):
    """A declaration handed over as a dict subclass / an OrderedDict / a read-only mapping proxy builds what the equivalent
    plain dict builds."""
    import collections
    import types
    stored = {'uptake': [10, 50, 90], 'size': 2, 'decay': [25, 75], 'label': 'xy'}
    if case['how'] in ('percent', 'percent_reversed'):
        src = PercentGrid(stored)
        src.reverse = case['how'] == 'percent_reversed'
    elif case['how'] == 'ordered':
        src = collections.OrderedDict(stored)
        src.move_to_end('uptake')
    else:
        src = types.MappingProxyType(dict(stored))
    plain = {k: src[k] for k in src}
    got, want = ParameterList(src).build(), ParameterList(plain).build()
    if got != want or [list(g) for g in got] != [list(w_) for w_ in want]:
        raise Violation(f'a declaration given as {type(src).__name__} ({case["how"]}) builds something else than the equivalent '
                        f'plain dict {plain}', expected=want[:4], observed=got[:4])
    return len(got)


ENDLESS_CHILD = r"""
import sys
sys.path.insert(0, sys.argv[1])
from ECAgent.Core import Agent, Model, Component
from ECAgent.Batching import ParameterList
class Wolf(Agent):
    pass
class Pack(Wolf):
    pass
m = Model(seed=1)
w = Wolf('w', m)
w.add_component(Component(w, m))
val = {'class': Wolf, 'subclass': Pack, 'base_class': Agent, 'instance': w, 'bare_instance': Pack('p', m)}[sys.argv[2]]
pl = ParameterList({'species': val, 'n': [1, 2]})
if sys.argv[3] == 'add':
    pl = ParameterList({'n': [1, 2]})
    pl.add_parameter('species', val)
got = pl.build()
names = [list(d) for d in got]
ok = len(got) == 2 and all(d['species'] is val for d in got) and sorted(d['n'] for d in got) == [1, 2]
print('RESULT', ok, len(got), names)
"""


def endless_case(case):
    """A parameter whose single value is an agent class (the species to simulate) or an agent object: `cls[Type]` and
    `agent[Type]` are lookups, not sequences - the value is ONE value, and build() returns.  (Run in a child interpreter
    with a deadline: an iteration that never ends cannot be observed from inside.)"""
    import os
    import subprocess
    import sys
    import ECAgent.Core as Core
    tree = os.path.dirname(os.path.dirname(os.path.abspath(Core.__file__)))
    try:
        r = subprocess.run([sys.executable, '-c', ENDLESS_CHILD, tree, case['value'], case['how']], capture_output=True,
                           text=True, env=dict(os.environ, PYTHONHASHSEED='0'), timeout=case.get('deadline', 15))
    except subprocess.TimeoutExpired:
        raise Violation(f'build() of a declaration whose parameter "species" is an agent {case["value"]} (declared through '
                        f'{case["how"]}) does not return within {case.get("deadline", 30)} s', expected='2 combinations',
                        observed='still running')
    line = next((ln for ln in r.stdout.splitlines() if ln.startswith('RESULT ')), None)
    if line is None or not line.startswith('RESULT True'):
        raise Violation(f'build() of a declaration whose parameter "species" is an agent {case["value"]}: the value is not '
                        f'treated as one value', expected='RESULT True 2', observed=line or (r.stderr.strip().splitlines() or [''])[-1])
    return 2


ODD_NAMES = ['lambda', 'class', 'in', 'None', 'True', 'lambda_', 'class_', '_', '__init__', '', ' ', 'two words', 'a.b',
             'a,b', '0', 'é', 'x' * 300, 'print', 'model', 'kwargs', 'id']


def names_case(case):
    """Parameter names of every spelling (reserved words, names ending in an underscore, empty, with spaces ...): the built
    combinations carry exactly the declared names, in declaration order."""
    names = case['names']
    decl = {n: ([i, -i - 1] if i == case['multi'] else i) for i, n in enumerate(names)}
    if case['ctor']:
        pl = ParameterList(dict(decl))
    else:
        pl = ParameterList()
        for n, v in decl.items():
            pl.add_parameter(n, v)
    gone = case.get('remove')
    if gone is not None:
        pl.remove_parameter(names[gone])
        del decl[names[gone]]
    got = pl.build()
    pools = [(v if isinstance(v, list) else [v]) for v in decl.values()]
    exp = [dict(zip(decl, combo)) for combo in itertools.product(*pools)]
    if got != exp or any(list(g) != list(e) for g, e in zip(got, exp)):
        raise Violation(f'declaration under the names {[n[:12] for n in names]} (removed: {gone}): the combinations do not carry '
                        f'exactly the declared names in declaration order', expected=[list(e)[:8] for e in exp[:1]],
                        observed=[list(g)[:8] for g in got[:1]] if isinstance(got, list) else repr(got)[:80])
    return len(exp)


def names_cases():
    for ctor in (True, False):
        for n in ODD_NAMES:
            yield {'leg': 'names', 'names': [n], 'multi': 0, 'ctor': ctor}
            yield {'leg': 'names', 'names': ['pa', n, 'pz'], 'multi': 1, 'ctor': ctor}
            yield {'leg': 'names', 'names': ['pa', n, 'pz'], 'multi': 0, 'ctor': ctor, 'remove': 2}
        for a, b in (('lambda', 'lambda_'), ('lambda_', 'lambda'), ('class', 'class_'), ('in_', 'in'), ('', ' '), ('_', '__')):
            yield {'leg': 'names', 'names': [a, b], 'multi': 1, 'ctor': ctor}
            yield {'leg': 'names', 'names': [a, b, 'pz'], 'multi': 0, 'ctor': ctor, 'remove': 0}
        yield {'leg': 'names', 'names': ODD_NAMES, 'multi': 3, 'ctor': ctor}


def long_values_case(case):
    """One parameter with tens of thousands of values, declared first / in the middle / last next to a two-valued and a
    single-valued one: every combination carries every name, the long parameter's values under ITS name."""
    import numpy as np
    n, where, kind = case['n'], case['where'], case['kind']
    long_v = {'range': range(n), 'list': list(range(n)), 'tuple': tuple(range(n)), 'nparr': np.arange(n)}[kind]
    decl = [('two', ['a', 'b']), ('one', 7)]
    decl.insert(where, ('long', long_v))
    pl = ParameterList()
    for k, v in decl:
        pl.add_parameter(k, v)
    got = pl.build()
    names = [k for k, _ in decl]
    if not isinstance(got, list) or len(got) != 2 * n:
        raise Violation(f'{n} values ({kind}) declared at position {where}: number of combinations', expected=2 * n,
                        observed=len(got) if isinstance(got, list) else repr(got)[:80])
    pools = [(list(range(n)) if k == 'long' else v if isinstance(v, list) else [v]) for k, v in decl]
    for j, combo in enumerate(itertools.product(*pools)):
        g = got[j]
        if list(g) != names or any(_py(g[k]) != c for k, c in zip(names, combo)):
            raise Violation(f'{n} values ({kind}) declared at position {where}: combination {j}', expected=dict(zip(names, combo)),
                            observed={k: repr(v)[:20] for k, v in list(g.items())[:4]})
    return 2 * n


def wide_case(case):
    """n declared parameters of which only those at the given positions have more than one value: whichever positions
    those are, the earlier-declared one varies slowest."""
    n, varying = case['n'], case['varying']
    pl = ParameterList({f'q{i}': ([i * 10, i * 10 + 1, i * 10 + 2][:2 + (i % 2)] if i in varying else i * 10) for i in range(n)}
                       if case['ctor'] else None)
    if not case['ctor']:
        for i in range(n):
            pl.add_parameter(f'q{i}', [i * 10, i * 10 + 1, i * 10 + 2][:2 + (i % 2)] if i in varying else i * 10)
    pools = [([i * 10, i * 10 + 1, i * 10 + 2][:2 + (i % 2)] if i in varying else [i * 10]) for i in range(n)]
    exp = [dict(zip([f'q{i}' for i in range(n)], combo)) for combo in itertools.product(*pools)]
    got = pl.build()
    if got != exp or any(list(g) != list(e) for g, e in zip(got, exp)):
        k = next((j for j, (g, e) in enumerate(zip(got, exp)) if g != e), None)
        raise Violation(f'{n} parameters, those at positions {varying} multi-valued: build() differs from the product with the '
                        f'first-declared parameter varying slowest (first difference at combination {k})',
                        expected=[{f'q{i}': exp[k][f'q{i}'] for i in varying}] if k is not None else len(exp),
                        observed=[{f'q{i}': got[k].get(f'q{i}') for i in varying}] if k is not None and k < len(got) else len(got))
    return len(exp)


def wide_cases(tier):
    for n in (9, 10, 12, 17, 33) if tier == 'quick' else (9, 10, 11, 12, 13, 16, 17, 18, 33, 65):
        for ctor in (True, False):
            for pair in itertools.combinations(range(n), 2):
                if n <= 12 or (pair[0] in (0, 1, 7, 8) or pair[1] in (n - 1, 8, 9, 16)):
                    yield {'leg': 'wide', 'n': n, 'varying': list(pair), 'ctor': ctor}
            if n <= 10:
                for tri in itertools.combinations(range(n), 3):
                    yield {'leg': 'wide', 'n': n, 'varying': list(tri), 'ctor': ctor}


def churn_case(case):
    """Many short-lived parameter lists with long value collections of equal name and length but different contents
    (object addresses get reused): every build is the product of its own declaration."""
    n, rounds = case['items'], case['rounds']
    builds = 0
    for r in range(rounds):
        vals = [r * 1000 + i for i in range(n)]
        if case['kind'] == 'tuple':
            vals = tuple(vals)
        pl = ParameterList({'a': vals, 'b': ['u', 'v']}) if r % 2 else ParameterList()
        if not r % 2:
            pl.add_parameter('a', vals)
            pl.add_parameter('b', ['u', 'v'])
        got = pl.build()
        exp = [{'a': v, 'b': b} for v in vals for b in ('u', 'v')]
        builds += 1
        if got != exp:
            bad = next(i for i, (g, e) in enumerate(zip(got, exp)) if g != e) if len(got) == len(exp) else None
            raise Violation(f'round {r}: build of a fresh list with {n} values for "a" is not its own product',
                            expected=exp[bad] if bad is not None else len(exp),
                            observed=got[bad] if bad is not None else len(got))
        del pl, vals, got
    return builds


def churn_same_case(case):
    """ONE parameter list that is re-declared again and again: add a fresh collection under the same name, build,
    compare, remove.  (The collections are temporaries: their addresses get reused.)"""
    pl = ParameterList()
    pl.add_parameter('fixed', ['u', 'v'])
    for r in range(case['rounds']):
        n = case['items']
        vals = [r * 100 + i for i in range(n)] if case['kind'] == 'list' else tuple(r * 100 + i for i in range(n))
        pl.add_parameter('a', vals)
        exp = [{'fixed': f, 'a': v} for f in ('u', 'v') for v in vals]
        del vals
        got = pl.build()
        if got != exp:
            raise Violation(f'round {r}: after re-declaring parameter "a" the build is not the product of the current '
                            f'declaration', expected=exp[:4], observed=got[:4])
        pl.remove_parameter('a')
        if pl.build() != [{'fixed': 'u'}, {'fixed': 'v'}]:
            raise Violation(f'round {r}: build after removing "a" still shows it')
    return 2 * case['rounds']


# the cheap legs run once more under the runner's ambient configurations (python -O, other logger levels)
AMBIENT_LEGS = True


def run(ctx):
    for n in ((120,) if ctx.small else (1500,) if ctx.tier == 'quick' else (1500, 6000)):
        case = {'leg': 'many_parameters', 'n': n}
        ctx.traces += 1
        try:
            ctx.transitions += hbfs._guard(many_parameters_case, case)
        except Violation as v:
            ctx.report(case, v)
            return
    ctx.leg('many_parameters', note='1500 (thorough also 6000) declared parameters')
    nw = 0
    for case in wide_cases(ctx.tier):
        if ctx.small and case['n'] > 10:
            continue
        ctx.traces += 1
        nw += 1
        try:
            ctx.transitions += hbfs._guard(wide_case, case)
        except Violation as v:
            ctx.report(case, v)
            return
    if not ctx.small:
        for value in ('class', 'subclass', 'base_class', 'instance', 'bare_instance'):
            for how in ('ctor', 'add'):
                case = {'leg': 'endless', 'value': value, 'how': how}
                ctx.traces += 1
                try:
                    ctx.transitions += hbfs._guard(endless_case, case)
                except Violation as v:
                    ctx.report(case, v)
                    return
        ctx.leg('agent_valued', cases=10, note='a parameter whose value is an agent class / an agent object (child interpreter '
                                               'with a deadline)')
    for how in ('percent', 'percent_reversed', 'ordered', 'proxy'):
        case = {'leg': 'mapping', 'how': how}
        ctx.traces += 1
        try:
            ctx.transitions += hbfs._guard(mapping_case, case)
        except Violation as v:
            ctx.report(case, v)
            return
    ctx.leg('wide', cases=nw, note='9..33 declared parameters, every pair (n <= 12) / triple (n <= 10) of positions multi-valued')
    kinds = [k for k in VALUES if k != 'empty']
    nr = 0
    for v1 in kinds:
        for v2 in kinds:
            if v1 != v2 and not ctx.small:
                case = {'leg': 'redeclare', 'v1': v1, 'v2': v2}
                ctx.traces += 1
                nr += 1
                try:
                    ctx.transitions += hbfs._guard(redeclare_case, case)
                except Violation as v:
                    ctx.report(case, v)
                    return
    ctx.leg('redeclare', cases=nr, note='every ordered pair of value kinds under one name: declare, build, remove, '
                                        'declare the other, build')
    for kind in ('list', 'tuple'):
        for items in (1, 2, 5, 60):
            case = {'leg': 'churn_same', 'kind': kind, 'items': items, 'rounds': 60}
            ctx.traces += 1
            try:
                ctx.transitions += hbfs._guard(churn_same_case, case)
            except Violation as v:
                ctx.report(case, v)
                return
    for kind in ('list', 'tuple'):
        for items in (3, 48, 64, 200):
            case = {'leg': 'churn', 'kind': kind, 'items': items, 'rounds': 120}
            ctx.traces += 1
            try:
                ctx.transitions += hbfs._guard(churn_case, case)
            except Violation as v:
                ctx.report(case, v)
                return
    ctx.leg('churn', note='8 sequences of 120 short-lived lists with 3 / 48 / 64 / 200 values')
    nn = 0
    for case in names_cases():
        ctx.traces += 1
        nn += 1
        try:
            ctx.transitions += hbfs._guard(names_case, case)
        except Violation as v:
            ctx.report(case, v)
            return
    ctx.leg('names', cases=nn, note='reserved words, trailing underscores, empty / spaced / very long names')
    if not ctx.small:
        for n in (32768, 32769, 40000) if ctx.tier == 'quick' else (32768, 32769, 40000, 65536, 65537, 100000):
            for where in (0, 1, 2):
                for kind in ('range', 'list', 'tuple', 'nparr'):
                    case = {'leg': 'long_values', 'n': n, 'where': where, 'kind': kind}
                    ctx.traces += 1
                    try:
                        ctx.transitions += hbfs._guard(long_values_case, case)
                    except Violation as v:
                        ctx.report(case, v)
                        return
        ctx.leg('long_values', note='a parameter with 32768 .. 40000 (thorough 100000) values at every declaration position')
    if ctx.small:
        vals = ['int', 'str', 'empty', 'one', 'two', 'tuple_rep', 'range2', 'nparr', 'none', 'np2d', 'np0d', 'npdt']
        plan = [('empty', vals, 2), ('dict_ab', vals[:5], 2)]
    elif ctx.tier == 'quick':
        vals = ['int', 'str', 'empty', 'one', 'two', 'tuple_rep', 'range2', 'nparr', 'none', 'np2d', 'np0d', 'npdt', 'tuple_f',
                'legacy_seq', 'one_tuple', 'one_list', 'one_empty', 'ragged', 'ragged_t', 'zero_pos', 'zero_neg', 'enum_class',
                'plain_class', 'falsy']
        plan = [('empty', vals, 3), ('dict_ab', vals[:5], 2), ('empty_dict', vals[:3], 1), ('dict_ba', vals[3:8], 2),
                ('dict_special', vals[:5], 2)]
    else:
        vals = list(VALUES)
        plan = [('empty', vals, 40), ('dict_ab', vals, 3), ('empty_dict', vals, 2), ('dict_ba', vals, 3),
                ('dict_special', vals, 3)]
    for start, v, depth in plan:
        h = Harness(start, v)
        r = hbfs.explore(ctx, h, start, max_depth=depth, procs=ctx.procs)
        ctx.leg(start, **r)
        if not r.get('fixpoint'):
            ctx.caps.append(f'{start}: depth bound {depth} (all histories up to that depth covered)')
        if ctx.violations:
            return


def replay(case):
    if case['leg'] == 'wide':
        hbfs._guard(wide_case, case)
        return
    if case['leg'] == 'mapping':
        hbfs._guard(mapping_case, case)
        return
    if case['leg'] == 'names':
        hbfs._guard(names_case, case)
        return
    if case['leg'] == 'long_values':
        hbfs._guard(long_values_case, case)
        return
    if case['leg'] == 'endless':
        hbfs._guard(endless_case, case)
        return
    if case['leg'] == 'redeclare':
        hbfs._guard(redeclare_case, case)
        return
    if case['leg'] == 'many_parameters':
        hbfs._guard(many_parameters_case, case)
        return
    if case['leg'] == 'churn':
        hbfs._guard(churn_case, case)
        return
    if case['leg'] == 'churn_same':
        hbfs._guard(churn_same_case, case)
        return
    hbfs.replay_case(Harness(case['config']['start'], case['config']['values']), case)
