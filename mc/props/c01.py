"""C01 - systems run in descending priority, registration order among equals.

E1 history BFS to the fixpoint over add/remove/step on a pool of real System objects, in lockstep with a
reference that sorts (-priority, registration sequence number) - a different algorithm from the insertion scan.
"""
from mc.engine import hbfs
from mc.engine.report import Violation
from mc.engine.seams import Canon, reset_library, public_snapshot, new_model

import copy
import itertools
import logging
import math
import pickle

import numpy as np

import ECAgent.Core as Core
from ECAgent.Collectors import Collector

QUICK_POOL = [('a', 'a', 0), ('b', 'b', 0), ('c', 'c', 1), ('e', 'e', 1), ('d', 'd', -1), ('k', 'k', None),
              ('a2', 'a', 2), ('k2', 'k', 1)]
# thorough: three systems per priority class over four classes, plus a colliding id and a collector
THOROUGH_POOL = [('p1', 'p1', 2), ('p2', 'p2', 2), ('p3', 'p3', 2), ('q1', 'q1', 1), ('q2', 'q2', 1),
                 ('q3', 'q3', 1), ('r1', 'r1', 0), ('r2', 'r2', 0), ('r3', 'r3', 0), ('s1', 's1', -1),
                 ('s2', 's2', -1), ('k', 'k', None), ('q1x', 'q1', 0)]

# unusual but legal priorities / system objects: numpy integer scalars (unsigned, minimum of a signed type), integers
# beyond 64 bits, and a system object that is falsy (defines __len__ -> 0)
ODD_POOL = [('u3', 'u3', ['uint8', 3]), ('u0', 'u0', ['uint8', 0]), ('m', 'm', ['int8', -128]), ('big', 'big', 2 ** 70),
            ('f', 'f', 0, 'falsy'), ('n64', 'n64', ['int64', -3])]
# systems whose class defines its own ordering (by id, descending - e.g. for display), and systems whose window opens
# later than they are registered (start 1 / 2): neither has any bearing on the execution order among those that run
LT_POOL = [('z1', 'z1', 0, 'lt'), ('y1', 'y1', 0, 'lt'), ('x2', 'x2', 1, 'lt'), ('w2', 'w2', 1, 'lt'), ('p', 'p', 0)]
# identifiers that are not strings (numbered systems): 1 is taken twice
INT_POOL = [('i1', 1, 0), ('i1b', 1, 1), ('i2', 2, 0), ('s', 's', 0)]
LATE_POOL = [('b', 'b', 0), ('L2', 'L2', 0, 'start2'), ('a', 'a', 0), ('c', 'c', 1), ('M1', 'M1', 1, 'start1')]
# windows that close (end 1 / end 0) and are opened again by their owner (op 'reopen'): a system that sat out some
# timesteps comes back in the slot its priority and registration give it
END_POOL = [('b', 'b', 0), ('E1', 'E1', 0, 'end1'), ('a', 'a', 0), ('c', 'c', 1), ('F0', 'F0', 1, 'end0')]
# priorities re-assigned while the system is NOT registered (op 'reprio'): the next registration goes by the new value;
# removal through the system's own clean_up() (op 'cleanup')
# systems that run every second / third timestep among equals that run every timestep
FREQ_POOL = [('a', 'a', 0), ('P2', 'P2', 0, 'freq2'), ('b', 'b', 0), ('Q3', 'Q3', 1, 'freq3'), ('c', 'c', 1)]
# four systems of one priority behind / ahead of one of another (a remembered insertion point needs three in a row)
FOUR_POOL = [('low', 'low', 1), ('x', 'x', 5), ('w', 'w', 5), ('y', 'y', 5), ('z', 'z', 5)]
# several distinct priorities beyond 64 bits on either side
HUGE_POOL = [('h1', 'h1', 2 ** 70), ('h2', 'h2', 2 ** 71), ('n1', 'n1', -2 ** 70), ('n2', 'n2', -2 ** 71), ('o', 'o', 0),
             ('m', 'm', 2 ** 63)]
REPRIO_POOL = [('a', 'a', 0), ('b', 'b', 0), ('c', 'c', 1), ('d', 'd', 1)]
REPRIO = [['a', 2], ['a', 0], ['b', 1], ['b', -1]]
BIG = 10 ** 6


def freq_of(entry):
    return int(entry[3][4:]) if len(entry) > 3 and entry[3].startswith('freq') else 1


def window(entry):
    if len(entry) > 3 and entry[3].startswith('start'):
        return [int(entry[3][5:]), BIG]
    if len(entry) > 3 and entry[3].startswith('end'):
        return [0, int(entry[3][3:])]
    return [0, BIG]


def decode_prio(p):
    if isinstance(p, list):
        return getattr(np, p[0])(p[1])
    return p


META = {
    'rule': 'BFS over histories of add(system)/remove(id)/step on real System objects; a case is a history; '
            'non-trivial = leads to a canonical state not seen before; outcomes = distinct execution orders observed',
    'alphabet': {'quick_pool(key,id,priority)': QUICK_POOL, 'thorough_pool': THOROUGH_POOL, 'odd_pool': ODD_POOL,
                 'ops': 'add(key) for every pool object, remove(id) for every id plus unknown id zz, step; construct(key) of a throw-away twin; '
                        'in the smaller pools also cleanup(key) = the system\'s own clean_up(), reprio(key, value) while unregistered, '
                        'reopen(key) of a closed window', 'more_pools': {'own_ordering': LT_POOL, 'late_start': LATE_POOL,
                 'numbered_ids': INT_POOL, 'closing_windows': END_POOL, 'reassigned_priorities': [REPRIO_POOL, REPRIO]}},
    'bounds': {'quick': 'fixpoint over quick_pool', 'thorough': 'fixpoint over quick_pool + depth-6 no-dedup leg + '
               'thorough_pool to depth bound 7 (cap reported)'},
    'assumptions': ['timestep is dropped from the canonical state: every system in the pool has the default '
                    'window so the clock cannot influence order (guarded by the no-dedup leg in thorough)',
                    'priorities are fixed at registration time (property quantifier)'],
}


def make_recorder(log):
    # the log is harness state, not model state: it is reached through the closure, never through a field, so
    # the canonical form of the model does not contain it
    class Rec(Core.System):
        def __init__(self, key, id, model, priority, start=0, **kw):
            super().__init__(id, model, priority=priority, start=start, **kw)
            self.key = key

        def execute(self):
            log.append(self.key)

    class FalsyRec(Rec):
        def __len__(self):        # e.g. "number of buffered items": the object is falsy while that is 0
            return 0

    class LtRec(Rec):
        def __lt__(self, other):      # a user-defined ordering of system objects (reverse alphabetical by id)
            return self.id > other.id

        def __gt__(self, other):
            return self.id < other.id

    Rec.Lt = LtRec

    class RecCollector(Collector):
        def __init__(self, key, id, model):
            super().__init__(id, model)   # default collector priority
            self.key = key

        def collect(self):
            log.append(self.key)

    return Rec, RecCollector, FalsyRec


class World:
    pass


class Harness:
    def __init__(self, pool, logger_level=None, aliases=False, cleanup=False, reprio=()):
        self.pool = [tuple(p) for p in pool]
        self.logger_level = logger_level
        self.aliases = aliases          # use the deprecated camelCase entry points (addSystem / removeSystem / executeSystems)
        self.cleanup = cleanup
        self.reprio = [list(r) for r in reprio]
        self.config = {'pool': [list(p) for p in self.pool], 'logger_level': logger_level, 'aliases': aliases,
                       'cleanup': cleanup, 'reprio': self.reprio}
        self.ids = sorted({p[1] for p in self.pool}, key=repr) + ['zz']
        self._ops = [['add', p[0]] for p in self.pool] + [['remove', i] for i in self.ids] + [['step']]
        # building (never registering) another system object under a pool id, and shallow-copying a pool object
        self._ops += [['construct', p[0]] for p in self.pool[:2]]
        self._ops += [['reopen', p[0]] for p in self.pool if window(p)[1] < BIG]
        if cleanup:
            self._ops += [['cleanup', p[0]] for p in self.pool]
        self._ops += [['reprio'] + r for r in self.reprio]
        self.cn = Canon(drop={('SystemManager', 'timestep')})

    def fresh(self):
        w = World()
        if self.logger_level is None:
            w.model = new_model(seed=1)
        else:       # a caller-supplied logger at another level (the library's own logger is forced to INFO)
            lg = logging.getLogger(f'c01-{self.logger_level}')
            lg.setLevel(self.logger_level)
            lg.propagate = False
            if not lg.handlers:
                lg.addHandler(logging.NullHandler())
            w.model = Core.Model(seed=1, logger=lg)
        w.log = []
        Rec, RecC, Falsy = make_recorder(w.log)
        w.objs = {}
        w.prio = {}
        for entry in self.pool:
            key, sid, prio = entry[0], entry[1], entry[2]
            if prio is None:
                o = RecC(key, sid, w.model)
            elif len(entry) > 3 and entry[3] == 'falsy':
                o = Falsy(key, sid, w.model, decode_prio(prio))
            elif len(entry) > 3 and entry[3] == 'lt':
                o = Rec.Lt(key, sid, w.model, decode_prio(prio))
            elif len(entry) > 3 and entry[3].startswith('start'):
                o = Rec(key, sid, w.model, decode_prio(prio), start=int(entry[3][5:]))
            elif len(entry) > 3 and entry[3].startswith('end'):
                o = Rec(key, sid, w.model, decode_prio(prio), end=int(entry[3][3:]))
            elif len(entry) > 3 and entry[3].startswith('freq'):
                o = Rec(key, sid, w.model, decode_prio(prio), frequency=int(entry[3][4:]))
            else:
                o = Rec(key, sid, w.model, decode_prio(prio))
            w.objs[key] = o
            w.prio[key] = int(o.priority) if prio is None else int(decode_prio(prio))
            # the reference goes by the DECLARED priority (the collector's default is read off the real object: "default -1" is
            #                            asserted separately below
        w.win = {e[0]: window(e) for e in self.pool}
        w.freq = {e[0]: freq_of(e) for e in self.pool}
        w.t = 0
        w.ref = []          # list of (priority, seq, key)
        w.seq = 0
        w.last = ()
        # a second model with systems of the same ids, stepped whenever the first one is: its order never changes
        w.m2 = new_model(seed=2)
        w.log2 = []
        Rec2, _, _ = make_recorder(w.log2)
        for key, prio in (('a', 0), ('c', 1), ('b', 0), ('k', -1)):
            w.m2.systems.add_system(Rec2(key, key, w.m2, prio))
        return w

    def ops(self, w):
        return self._ops

    def _registered(self, w):
        return {self_id(self, k): k for _, _, k in w.ref}

    def apply(self, w, op):
        sm = w.model.systems
        kind = op[0]
        if kind == 'add':
            key = op[1]
            sid = self_id(self, key)
            reg = self._registered(w)
            before = self.public(w) if sid in reg else None
            try:
                (sm.addSystem if self.aliases else sm.add_system)(w.objs[key])
                raised = None
            except KeyError as e:
                raised = e
            if sid in reg:
                if raised is None:
                    raise Violation(f'add_system accepted a second system with id {sid!r}',
                                    expected='KeyError', observed='accepted')
                if self.public(w) != before:
                    raise Violation(f'rejected add_system({sid!r}) changed the scheduler state')
            else:
                if raised is not None:
                    raise Violation(f'add_system({key}) raised {raised!r} although id {sid!r} is free')
                w.ref.append((w.prio[key], w.seq, key))
                w.seq += 1
        elif kind == 'remove':
            sid = op[1]
            reg = self._registered(w)
            before = self.public(w) if sid not in reg else None
            try:
                (sm.removeSystem if self.aliases else sm.remove_system)(sid)
                raised = None
            except Core.SystemNotFoundError as e:
                raised = e
            if sid in reg:
                if raised is not None:
                    raise Violation(f'remove_system({sid!r}) raised although the system is registered')
                w.ref = [r for r in w.ref if r[2] != reg[sid]]
            else:
                if raised is None:
                    raise Violation(f'remove_system({sid!r}) of an unknown id did not raise',
                                    expected='SystemNotFoundError', observed='accepted')
                if self.public(w) != before:
                    raise Violation(f'rejected remove_system({sid!r}) changed the scheduler state')
        elif kind == 'cleanup':
            # the system's own way out: the same as remove_system(its id) - exercised when this very object is the
            # registered one, or when nothing is registered under its id (refused, nothing changes)
            key = op[1]
            sid = self_id(self, key)
            reg = self._registered(w)
            if reg.get(sid, key) != key:
                return          # another object holds the id: whom clean_up() retires then is not for C01 to say
            before = self.public(w) if sid not in reg else None
            try:
                w.objs[key].clean_up()
                raised = None
            except Core.SystemNotFoundError as e:
                raised = e
            if sid in reg:
                if raised is not None:
                    raise Violation(f'clean_up() of the registered system {key} raised {raised!r}')
                w.ref = [r for r in w.ref if r[2] != key]
            else:
                # (whether an unregistered system's clean_up() raises or quietly does nothing is not C01's business)
                if self.public(w) != before:
                    raise Violation(f'rejected clean_up() of {key} changed the scheduler state')
        elif kind == 'reprio':
            key, value = op[1], op[2]
            if key in self._registered(w).values():
                return          # priorities are fixed while registered (property quantifier)
            w.objs[key].priority = value
            w.prio[key] = value
        elif kind == 'reopen':
            w.objs[op[1]].end = BIG
            w.win[op[1]][1] = BIG
        elif kind == 'construct':
            # a second object with the same id and priority is built and thrown away, and the pool object is copied:
            # neither is registered, so nothing about the schedule changes
            src = w.objs[op[1]]
            twin = type(src)(op[1] + '_twin', src.id, w.model, src.priority) if not isinstance(src, Collector) else \
                type(src)(op[1] + '_twin', src.id, w.model)
            clone = copy.copy(src)
            del twin, clone
        elif kind == 'step':
            del w.log[:]
            if self.aliases:
                sm.executeSystems()
            else:
                w.model.execute()
            del w.log2[:]
            w.m2.execute()
            if w.log2 != ['c', 'a', 'b', 'k']:
                raise Violation('a second model with systems of the same ids was disturbed', expected=['c', 'a', 'b', 'k'],
                                observed=list(w.log2))
            got = tuple(w.log)
            order = [k for _, _, k in sorted(w.ref, key=lambda r: (-r[0], r[1]))]
            exp = tuple(k for k in order if w.win[k][0] <= w.t <= w.win[k][1] and w.t % w.freq[k] == 0)   # those due in this timestep
            w.t += 1
            w.last = got
            if got != exp:
                raise Violation('execution order differs from (descending priority, registration order)',
                                expected=list(exp), observed=list(got))
            # a copy of the model inherits the registration history: its systems (copies that write to the same log)
            # run in the same order
            if len(self.pool) > 6:
                return            # (the large pools skip the copy: the clone leg and the smaller pools cover it)
            clone = copy.deepcopy(w.model)
            del w.log[:]
            clone.execute()
            exp = tuple(k for k in order if w.win[k][0] <= w.t <= w.win[k][1] and w.t % w.freq[k] == 0)   # the copy runs the NEXT timestep
            if tuple(w.log) != exp:
                raise Violation('a deep copy of the model runs its systems in another order than (descending priority, '
                                'registration order of the model it was copied from)', expected=list(exp),
                                observed=list(w.log))
        else:
            raise ValueError(op)

    def check(self, w):
        sm = w.model.systems
        reg = self._registered(w)
        for sid in self.ids:
            if not isinstance(sid, str):
                continue      # the accessor is documented for string ids (anything else is read as a component type)
            got = sm[sid]
            exp = w.objs[reg[sid]] if sid in reg else None
            if got is not exp:
                raise Violation(f'systems[{sid!r}] does not answer the registered object',
                                expected=reg.get(sid), observed=getattr(got, 'key', repr(got)))
        if w.objs.get('k') is not None and w.objs['k'].priority != -1:
            raise Violation('a collector built with default arguments does not have priority -1',
                            expected=-1, observed=w.objs['k'].priority)

    def canon(self, w):
        return self.cn(w.model, [w.objs[p[0]] for p in self.pool])

    def public(self, w):
        return public_snapshot(w.model, names={id(o): k for k, o in w.objs.items()})

    def refstate(self, w):
        # registration order and scheduling order; sequence numbers only matter relative to each other
        edges = [v for win in w.win.values() for v in win if v < BIG]
        period = 1
        for f in w.freq.values():
            period = period * f // math.gcd(period, f)
        return (tuple(k for _, _, k in w.ref), tuple(k for _, _, k in sorted(w.ref, key=lambda r: (-r[0], r[1]))),
                min(w.t, max(edges) + 1), w.t % period, tuple(sorted(w.prio.items())) if self.reprio else (),
                tuple(sorted((k, v[1]) for k, v in w.win.items())))

    def outcome(self, w):
        return w.last


def self_id(h, key):
    for p in h.pool:
        if p[0] == key:
            return p[1]
    raise KeyError(key)


def churn_case(case):
    """Short-lived system objects: a colliding object is rejected and dropped, then a NEW object (which may get the
    dropped one's address) is registered under a free id with another priority; the order is judged every round."""
    reset_library()
    m = new_model(seed=1)
    log = []
    Rec, _, _ = make_recorder(log)
    base = [Rec('a', 'a', m, 0), Rec('c', 'c', m, 2), Rec('d', 'd', m, -2)]
    for o in base:
        m.systems.add_system(o)
    n = 0
    for r in range(case['rounds']):
        tmp = Rec('tmp', 'a', m, 9 if r % 2 else -9)      # id taken: must be rejected and leave no trace
        try:
            m.systems.add_system(tmp)
        except KeyError:
            pass
        else:
            raise Violation('duplicate id accepted')
        del tmp
        prio = (1, -1, 3, -3)[r % 4]
        new = Rec('new', f'n{r % 3}', m, prio)
        m.systems.add_system(new)
        del log[:]
        m.execute()
        order = sorted([('a', 0, 0), ('c', 2, 1), ('d', -2, 2), ('new', prio, 3)], key=lambda t: (-t[1], t[2]))
        exp = [t[0] for t in order]
        if log != exp:
            raise Violation(f'round {r}: execution order after a rejected registration of a short-lived object and the '
                            f'registration of a new one (priority {prio})', expected=exp, observed=list(log))
        m.systems.remove_system(new.id)
        del new
        n += 3
    return n


class PRec(Core.System):
    """Module-level (hence picklable) recorder; the log is class state shared by originals and clones."""
    LOG = []

    def execute(self):
        PRec.LOG.append(self.id)


def clone_cases():
    # every registration history of up to 4 systems with priorities from {0, 1}, optionally with the first one
    # removed and registered again at the end
    for n in (2, 3, 4):
        for prios in itertools.product((0, 1), repeat=n):
            for readd in (False, True):
                yield {'leg': 'clone', 'prios': list(prios), 'readd': readd}


def clone_case(case):
    """The model is copied (copy.deepcopy) and pickled/unpickled after its history; each clone runs in the order the
    history prescribes and keeps doing so when the history goes on in the clone."""
    reset_library()
    m = new_model(seed=1)
    ref = []
    for i, p in enumerate(case['prios']):
        m.systems.add_system(PRec(f's{i}', m, priority=p))
        ref.append((p, f's{i}'))
    if case['readd']:
        first = m.systems['s0']
        m.systems.remove_system('s0')
        m.systems.add_system(first)
        ref.append(ref.pop(0))

    def order(r):
        return [sid for _, sid in sorted(r, key=lambda e: -e[0])]      # stable: registration order among equals
    n = 0
    clones = [('deepcopy', copy.deepcopy(m)), ('pickle', pickle.loads(pickle.dumps(m))),
              ('deepcopy of unpickled', copy.deepcopy(pickle.loads(pickle.dumps(m)))), ('original', m)]
    for how, c in clones:
        r = list(ref)
        for extra in (None, ('n0', 0), ('n1', 1)):
            if extra is not None:
                c.systems.add_system(PRec(extra[0], c, priority=extra[1]))
                r.append((extra[1], extra[0]))
            del PRec.LOG[:]
            c.execute()
            n += 1
            if PRec.LOG != order(r):
                raise Violation(f'{how} of a model with registration history {case}: execution order'
                                f'{" after registering " + extra[0] if extra else ""}', expected=order(r),
                                observed=list(PRec.LOG))
    return n


def many_systems_case(case):
    """Several thousand systems registered at once (scrambled priorities, some removed and registered again): one
    timestep runs them in (descending priority, registration order)."""
    reset_library()
    n = case['n']
    m = new_model(seed=1)
    log = []
    Rec, _, _ = make_recorder(log)
    ref = []
    seq = 0
    objs = {}
    for i in range(n):
        key = f's{(i * 7919) % n}'
        prio = ((i * 31) % 11) - 5
        objs[key] = Rec(key, key, m, prio)
        m.systems.add_system(objs[key])
        ref.append((prio, seq, key))
        seq += 1
    for j in range(0, n, 37):            # every 37th goes and comes back (now the youngest of its priority)
        key = f's{j}'
        m.systems.remove_system(key)
        ref = [r for r in ref if r[2] != key]
    for j in range(0, n, 74):
        key = f's{j}'
        m.systems.add_system(objs[key])
        ref.append((int(objs[key].priority), seq, key))
        seq += 1
    m.execute()
    exp = [k for _, _, k in sorted(ref, key=lambda r: (-r[0], r[1]))]
    if log != exp:
        i = next((i for i, (a, b) in enumerate(zip(log, exp)) if a != b), min(len(log), len(exp)))
        raise Violation(f'{n} systems registered at once: execution order differs from (descending priority, '
                        f'registration order) at position {i}', expected=exp[max(0, i - 2):i + 3],
                        observed=log[max(0, i - 2):i + 3])
    return len(exp)


PICKLE_CHILD = r'''
import pickle, sys
sys.path.insert(0, sys.argv[1]); sys.path.insert(0, sys.argv[2])
import mc.props.c01 as c01
with open(sys.argv[3], 'rb') as f:
    m = pickle.load(f)
for sid, prio in (('late0', 0), ('late1', 1), ('late0b', 0)):
    m.systems.add_system(c01.PRec(sid, m, priority=prio))
del c01.PRec.LOG[:]
m.execute()
print('ORDER ' + ','.join(c01.PRec.LOG))
'''


def pickle_child_case(case):
    """A model is pickled to a file and loaded in a FRESH interpreter (a later session of the same study), where
    further systems are registered: those registered in the first session still precede their equals."""
    import os
    import subprocess
    import sys
    import tempfile
    reset_library()
    m = Core.Model(seed=1)
    ref = []
    for i, p in enumerate(case['prios']):
        m.systems.add_system(PRec(f's{i}', m, priority=p))
        ref.append((p, f's{i}'))
    if case.get('warm'):
        for _ in range(case['warm']):      # registrations that came and went in the first session
            t = PRec('tmp', m, priority=0)
            m.systems.add_system(t)
            m.systems.remove_system('tmp')
    ref += [(0, 'late0'), (1, 'late1'), (0, 'late0b')]
    exp = [sid for _, sid in sorted(ref, key=lambda e: -e[0])]
    tree = os.path.dirname(os.path.dirname(os.path.abspath(Core.__file__)))
    verif = os.path.dirname(os.path.dirname(os.path.dirname(os.path.abspath(__file__))))
    with tempfile.TemporaryDirectory(prefix='c01-') as d:
        path = os.path.join(d, 'model.pickle')
        with open(path, 'wb') as f:
            pickle.dump(m, f)
        r = subprocess.run([sys.executable, '-c', PICKLE_CHILD, tree, verif, path], capture_output=True, text=True,
                           env=dict(os.environ, PYTHONHASHSEED='0'), timeout=300)
    line = next((ln for ln in r.stdout.splitlines() if ln.startswith('ORDER ')), None)
    if line is None:
        raise Violation('a pickled model could not be loaded and stepped in a fresh interpreter',
                        observed=(r.stderr.strip().splitlines() or [''])[-1])
    got = line[6:].split(',')
    if got != exp:
        raise Violation(f'model with priorities {case["prios"]} pickled, loaded in a fresh interpreter, three more systems '
                        f'registered there: execution order', expected=exp, observed=got)
    return len(got)


def two_threads_case(case):
    """Two independent models, each stepped by its own thread; the second thread cuts into the first at every line of
    library code it executes (E5).  Each model runs ITS systems in its own (descending priority, registration) order."""
    from mc.engine import preempt
    logs = {}

    def make():
        reset_library()
        out = []
        for name, prios in (('m1', case['p1']), ('m2', case['p2'])):
            m = Core.Model(seed=1)
            log = logs[name] = []
            Rec, _, _ = make_recorder(log)
            for i, p in enumerate(prios):
                m.systems.add_system(Rec(f'{name}.s{i}', f's{i}', m, p))
            out.append(m)
        return (lambda: out[0].execute(case.get('n', 1))), (lambda: out[1].execute())

    def want(name, prios, times):
        order = [f'{name}.s{i}' for _, i in sorted(((-p, i) for i, p in enumerate(prios)))]
        return order * times

    def judge(k, box_a, box_b):
        for name, prios, box, times in (('m1', case['p1'], box_a, case.get('n', 1)), ('m2', case['p2'], box_b, 1)):
            if box.error is not None or logs[name] != want(name, prios, times):
                raise Violation(f'two models stepped by two threads: model {name} (priorities {prios}) ran its systems in the '
                                f'wrong order / not exactly once when the other thread cut in at line event {k}',
                                expected=want(name, prios, times), observed=repr(box.error) if box.error else list(logs[name]))
    return preempt.check_pair(make, judge, case.get('k'))


def long_history(case):
    """One deep history: a transient system is registered and removed n times, then the order of a small set is judged.
    (Exhaustive exploration cannot reach counters that need a million registrations; this single path does.)"""
    reset_library()
    n = case['cycles']
    m = new_model(seed=1)
    log = []
    Rec, _, _ = make_recorder(log)
    keep = Rec('k5', 'k5', m, 5)
    m.systems.add_system(keep)
    tmp = Rec('tmp', 'tmp', m, 1)
    for _ in range(n):
        m.systems.add_system(tmp)
        m.systems.remove_system('tmp')
    late = [Rec('p4', 'p4', m, 4), Rec('p5', 'p5', m, 5), Rec('p6', 'p6', m, 6), Rec('q5', 'q5', m, 5)]
    for o in late:
        m.systems.add_system(o)
    m.execute()
    exp = ['p6', 'k5', 'p5', 'q5', 'p4']
    if log != exp:
        raise Violation(f'after {n} register/remove cycles the execution order is wrong', expected=exp, observed=log)
    return tuple(log)


def wrap_case(case):
    """Between two timesteps exactly 2**k scheduler operations (or exactly 2**k registrations) happen that leave the number
    of registered systems unchanged but not their order: a change counter that wraps at 2**k must not make the second
    timestep look like the first."""
    reset_library()
    k, count = case['k'], case['count']
    m = new_model(seed=1)
    log = []
    Rec, _, _ = make_recorder(log)
    a, b, c = Rec('a', 'a', m, 0), Rec('b', 'b', m, 0), Rec('c', 'c', m, 0)
    for o in (a, b, c):
        m.systems.add_system(o)
    tmp = Rec('tmp', 'tmp', m, 1)
    m.execute()
    if log != ['a', 'b', 'c']:
        raise Violation('first timestep: execution order', expected=['a', 'b', 'c'], observed=list(log))
    del log[:]
    m.systems.remove_system('a')
    m.systems.add_system(a)          # a is now the youngest of its priority
    pairs = (2 ** k - 2) // 2 if count == 'operations' else 2 ** k - 1       # all operations / registrations only
    for _ in range(pairs):
        m.systems.add_system(tmp)
        m.systems.remove_system('tmp')
    m.execute()
    if log != ['b', 'c', 'a']:
        raise Violation(f'a system re-registered, then {pairs} add/remove pairs of a transient system ({count} between the '
                        f'two timesteps: 2**{k}): execution order', expected=['b', 'c', 'a'], observed=list(log))
    return 2 * pairs + 4


class BatchProbe(Collector):
    """Records which systems ran before it in the current timestep (module-level: batch_run builds the model itself)."""

    def collect(self):
        self.records.append(list(self.model.ran))
        del self.model.ran[:]


class BatchPeer(Core.System):
    def execute(self):
        self.model.ran.append(self.id)


class BatchModel(Core.Model):
    def __init__(self, order=0):
        super().__init__(seed=1)
        self.ran = []
        # the probe is registered BEFORE a peer of its own priority (-1): it runs before that peer
        names = [['reset', 'probe', 'other'], ['probe', 'reset', 'other'], ['reset', 'other', 'probe']][order]
        for n in names:
            if n == 'probe':
                self.systems.add_system(BatchProbe('probe', self))
            else:
                self.systems.add_system(BatchPeer(n, self, priority=-1))
        self.systems.add_system(BatchPeer('early', self, priority=3))


def batch_order_case(case):
    """The same model class stepped by hand and run through batch_run(collectors=...): the systems run in the order the
    model's constructor registered them, whoever drives the model."""
    import ECAgent.Batching as Batching
    reset_library()
    order = case['order']
    names = [['reset', 'probe', 'other'], ['probe', 'reset', 'other'], ['reset', 'other', 'probe']][order]
    first = ['early'] + names[:names.index('probe')]
    later = names[names.index('probe') + 1:] + first
    exp = [first, later, later]
    m = BatchModel(order)
    m.execute(3)
    if m.systems['probe'].records != exp:
        raise Violation(f'model stepped by hand (registration order {names}): what ran before the probe', expected=exp,
                        observed=m.systems['probe'].records)
    for coll in ('probe', ['probe']):
        got = Batching.batch_run(BatchModel, {'order': [order]}, collectors=coll, max_timesteps=3)
        rec = got[0] if coll == 'probe' else got[0]['probe']
        if rec != exp:
            raise Violation(f'model run by batch_run(collectors={coll!r}) (registration order {names}): the systems did not '
                            f'run in (descending priority, registration order)', expected=exp, observed=rec)
    return 9


def helpers_case(case):
    """Strictly sequential histories in which some registrations / removals are ISSUED from helper threads (a thread-pool
    callback that is waited for before the next operation): who makes the call has no bearing on the order."""
    import threading
    from mc.engine.seams import reset_library
    reset_library()
    m = new_model(seed=1)
    log = []

    class R(Core.System):
        def execute(self):
            log.append(self.id)
    ref = []          # (id, priority) in registration order

    def via(who, fn, *args):
        if who == 'main':
            return fn(*args)
        err = []

        def work():
            try:
                fn(*args)
            except BaseException as e:      # noqa - re-raised below
                err.append(e)
        t = threading.Thread(target=work, name=who)
        t.start()
        t.join()
        if err:
            raise err[0]
    n = 0
    for i, (op, prio, who) in enumerate(case['ops']):
        if op == 'add':
            sid = f's{i}'
            via(who, m.systems.add_system, R(sid, m, priority=prio))
            ref.append((sid, prio))
        elif ref:
            gone = ref.pop(prio % len(ref))
            via(who, m.systems.remove_system, gone[0])
        del log[:]
        m.execute()
        n += 1
        exp = [sid for sid, _ in sorted(ref, key=lambda r: -r[1])]
        if log != exp:
            raise Violation(f'after operation {i} ({op} priority/index {prio} issued from {who}): order of execution',
                            expected=exp, observed=list(log))
    return n


def helpers_cases(tier):
    import itertools
    whos = ('main', 'helper-1', 'helper-2')
    alphabet = [('add', p, w) for p in (0, 1) for w in whos] + [('rm', 1, 'main'), ('rm', 0, 'helper-1')]
    for n in (1, 2, 3, 4) if tier == 'quick' else (1, 2, 3, 4, 5):
        for ops in itertools.product(alphabet, repeat=n):
            yield {'leg': 'helpers', 'ops': [list(o) for o in ops]}


def bg_peek(bg):
    """True if the side process has already reported a violation (the message stays in `bg` for the collector)."""
    if len(bg) == 3:
        bg.append(bg[1].recv())
    return bg[3] is not None


def _bg_long(conn, case):
    try:
        hbfs._guard(long_history, case)
        conn.send(None)
    except Violation as v:
        conn.send((v.msg, v.expected, v.observed))
    conn.close()


# the cheap legs run once more under the runner's ambient configurations (python -O, other logger levels)
AMBIENT_LEGS = True


def run(ctx):
    bg = None
    if not ctx.small and ctx.tier == 'quick':
        # the longest single history (2^24+16 cycles, ~30 s) runs in a process of its own next to everything else
        import multiprocessing
        mp = multiprocessing.get_context('fork')
        recv, send = mp.Pipe(False)
        bg_case = {'leg': 'long_history', 'cycles': 2 ** 24 + 16}
        bg = [mp.Process(target=_bg_long, args=(send, bg_case)), recv, bg_case]
        bg[0].start()
        hbfs.ABORT = lambda: bg_peek(bg) if (len(bg) > 3 or bg[1].poll(0)) else False
    try:
        _run(ctx)
    finally:
        hbfs.ABORT = None
        if bg is not None:
            proc, recv, bg_case = bg[:3]
            if ctx.violations:
                proc.terminate()
            else:
                if len(bg) > 3:
                    res = bg[3]
                else:
                    res = recv.recv() if recv.poll(600) else ('the longest history did not finish within 600 s', None, None)
                ctx.traces += 1
                ctx.transitions += 2 * bg_case['cycles']
                if res is not None:
                    ctx.report(bg_case, Violation(*res))
                ctx.leg('long_history_2^24', note='2^24+16 register/remove cycles, in a process of its own')
            proc.join(5)


def _run(ctx):
    # cheap single-history legs first (a change that introduces unbounded hidden state makes the BFS legs slow)
    for case in ({'leg': 'churn', 'rounds': 200},):
        ctx.traces += 1
        try:
            ctx.transitions += hbfs._guard(churn_case, case)
        except Violation as v:
            ctx.report(case, v)
            return
    for cycles in ((1000,) if ctx.small else (70000, 2 ** 20 + 16) if ctx.tier == 'quick' else (70000, 2 ** 20 + 16, 2 ** 24 + 16)):
        case = {'leg': 'long_history', 'cycles': cycles}
        ctx.traces += 1
        ctx.transitions += 2 * cycles
        try:
            ctx.outcome(hbfs._guard(long_history, case))
        except Violation as v:
            ctx.report(case, v)
            return
    for k in ((8,) if ctx.small else (8, 12, 16, 17) if ctx.tier == 'quick' else (8, 12, 16, 17, 20)):
        for count in ('operations', 'registrations'):
            case = {'leg': 'wrap', 'k': k, 'count': count}
            ctx.traces += 1
            try:
                ctx.transitions += hbfs._guard(wrap_case, case)
            except Violation as v:
                ctx.report(case, v)
                return
    nh = 0
    for case in helpers_cases(ctx.tier if not ctx.small else 'small'):
        if ctx.small and len(case['ops']) > 2:
            break
        ctx.traces += 1
        nh += 1
        try:
            ctx.transitions += hbfs._guard(helpers_case, case)
        except Violation as v:
            ctx.report(case, v)
            return
    ctx.leg('helpers', histories=nh, note='every history of <= 4 (thorough 5) registrations / removals issued from the main '
                                          'thread or one of two helper threads (sequentially), a timestep after each')
    for order in (0, 1, 2):
        case = {'leg': 'batch_order', 'order': order}
        ctx.traces += 1
        try:
            ctx.transitions += hbfs._guard(batch_order_case, case)
        except Violation as v:
            ctx.report(case, v)
            return
    ctx.leg('wrap_and_batch', note='exactly 2^k operations / registrations between two timesteps (k = 8, 12, 16, 17; thorough '
                                   'also 20); the model driven by batch_run')
    ctx.leg('long_history', note='single deep histories of 70 000 and 2^20+16 (thorough: also 2^24+16) register/remove cycles; churn of '
                                 '200 short-lived colliding / new system objects')
    for n in ((300,) if ctx.small else (3000,) if ctx.tier == 'quick' else (3000, 12000)):
        case = {'leg': 'many_systems', 'n': n}
        ctx.traces += 1
        try:
            ctx.transitions += hbfs._guard(many_systems_case, case)
        except Violation as v:
            ctx.report(case, v)
            return
    ctx.leg('many_systems', note='3000 (thorough also 12000) systems registered at once, 11 priority levels')
    if not ctx.small:
        for case in ({'leg': 'pickle_child', 'prios': [0, 1, 0, 1]}, {'leg': 'pickle_child', 'prios': [0, 0], 'warm': 5},
                     {'leg': 'pickle_child', 'prios': [1, 0, -1, 0]}):
            ctx.traces += 1
            try:
                ctx.transitions += hbfs._guard(pickle_child_case, case)
            except Violation as v:
                ctx.report(case, v)
                return
        ctx.leg('pickle_child', cases=3, note='model pickled, loaded in a fresh interpreter, more systems registered there')
    if not ctx.small:
        for case in ({'leg': 'two_threads', 'p1': [0, 1, 0, -1], 'p2': [2, 2, 0]}, {'leg': 'two_threads', 'p1': [1, 1], 'p2': [0, 3, 0, 3], 'n': 2}):
            ctx.traces += 1
            try:
                ctx.transitions += hbfs._guard(two_threads_case, case)
            except Violation as v:
                ctx.report(dict(case, k=getattr(v, 'case_k', 0)), v)
                return
        ctx.leg('two_threads', note='E5: two models stepped by two threads, one preemption at every library line')
    nc = 0
    for case in clone_cases():
        ctx.traces += 1
        nc += 1
        try:
            ctx.transitions += hbfs._guard(clone_case, case)
        except Violation as v:
            ctx.report(case, v)
            return
    ctx.leg('clone', histories=nc, note='deepcopy / pickle round trip of the model after every registration history of '
                                        '<= 4 systems; every BFS step also runs a deep copy')
    if ctx.small:
        hs = Harness([('b', 'b', 0), ('a', 'a', 0), ('c', 'c', 1), ('k', 'k', None), ('a2', 'a', 1)], cleanup=True,
                     reprio=[['b', 2], ['b', 0]])
        r = hbfs.explore(ctx, hs, 'small_pool', max_depth=40, procs=ctx.procs)
        ctx.leg('small_pool', **r)
        return
    # the small pools first: a change that adds hidden state makes the big pools slow
    for name, pool, kw in (('own_ordering', LT_POOL, {'cleanup': True}), ('late_start', LATE_POOL, {}),
                           ('numbered_ids', INT_POOL, {'cleanup': True}), ('closing_windows', END_POOL, {}),
                           ('frequencies', FREQ_POOL, {}), ('four_equals', FOUR_POOL, {}), ('huge_priorities', HUGE_POOL, {}),
                           ('reassigned_priorities', REPRIO_POOL, {'cleanup': True, 'reprio': REPRIO})):
        hp = Harness(pool, **kw)
        r = hbfs.explore(ctx, hp, name, max_depth=40, procs=ctx.procs)
        ctx.leg(name, **r)
        if not r.get('fixpoint'):
            ctx.cap(f'{name}: fixpoint not reached')
        if ctx.violations:
            return
    h = Harness(QUICK_POOL)
    r = hbfs.explore(ctx, h, 'quick_pool', max_depth=40, procs=ctx.procs)
    ctx.leg('quick_pool', **r)
    if not r.get('fixpoint'):
        ctx.cap('quick_pool: fixpoint not reached')
    if ctx.violations:
        return
    ho = Harness(ODD_POOL)
    r = hbfs.explore(ctx, ho, 'odd_pool', max_depth=40, procs=ctx.procs)
    ctx.leg('odd_pool', **r)
    if not r.get('fixpoint'):
        ctx.cap('odd_pool: fixpoint not reached')
    if ctx.violations:
        return
    small = [('b', 'b', 0), ('a', 'a', 0), ('c', 'c', 1), ('k', 'k', None), ('k2', 'k', 0), ('a2', 'a', 1)]
    ha = Harness(small, aliases=True)
    r = hbfs.explore(ctx, ha, 'deprecated_entry_points', max_depth=40, procs=ctx.procs)
    ctx.leg('deprecated_entry_points', **r)
    if ctx.violations:
        return
    for level in (logging.DEBUG, logging.ERROR):
        hl = Harness(small, logger_level=level)
        r = hbfs.explore(ctx, hl, f'logger_level_{level}', max_depth=40, procs=ctx.procs)
        ctx.leg(f'logger_level_{level}', **r)
        if ctx.violations:
            return
    if ctx.tier == 'thorough':
        r = hbfs.explore(ctx, h, 'quick_pool_nodedup', max_depth=4, dedup=False, procs=ctx.procs)
        ctx.leg('quick_pool_nodedup', **r)
        if ctx.violations:
            return
        h2 = Harness(THOROUGH_POOL)
        r = hbfs.explore(ctx, h2, 'thorough_pool', max_depth=5, procs=ctx.procs)
        ctx.leg('thorough_pool', **r)
        if not r.get('fixpoint'):
            ctx.caps.append('thorough_pool: depth bound 5 reached before the fixpoint (all histories up to '
                            'depth 5 covered)')


def replay(case):
    if case['leg'] == 'long_history':
        hbfs._guard(long_history, case)
        return
    if case['leg'] == 'churn':
        hbfs._guard(churn_case, case)
        return
    if case['leg'] == 'wrap':
        hbfs._guard(wrap_case, case)
        return
    if case['leg'] == 'batch_order':
        hbfs._guard(batch_order_case, case)
        return
    if case['leg'] == 'helpers':
        hbfs._guard(helpers_case, case)
        return
    if case['leg'] == 'clone':
        hbfs._guard(clone_case, case)
        return
    if case['leg'] == 'two_threads':
        hbfs._guard(two_threads_case, case)
        return
    if case['leg'] == 'pickle_child':
        hbfs._guard(pickle_child_case, case)
        return
    if case['leg'] == 'many_systems':
        hbfs._guard(many_systems_case, case)
        return
    cf = case['config']
    h = Harness(cf['pool'], cf.get('logger_level'), cf.get('aliases', False), cf.get('cleanup', False), cf.get('reprio', ()))
    hbfs.replay_case(h, case)
