"""C03 - component listings mirror exactly the components of agents in the model.

E1 history BFS per world kind.  Two references are stepped in lockstep with the real objects:

  S  the strict reference (what the property states): listing(T) = T-components of resident agents in joining order
  K  the as-is model of the pinned implementation's pools (changed only by join / leave / explicit calls)

Rule per step: impl == S -> pass.  Otherwise, if the history contains a listed trigger and impl == K -> the
divergence is the known finding (F1/F2/F3/F6); anything else -> VIOLATION.  On trigger-free histories S == K is
asserted, so a listed finding can never absorb a divergence there.
"""
from mc.engine import hbfs, par
from mc.engine.report import Violation, HarnessError
from mc.engine.seams import Canon, new_model

import abc
import copy

import ECAgent.Core as Core
import ECAgent.Environments as Envs


class X(Core.Component):
    pass


class Y(Core.Component):
    pass


TYPES = {'X': X, 'Y': Y}
AGENTS = [('a1', 'a1'), ('a1b', 'a1'), ('a2', 'a2')]      # (pool key, agent id)
IDS = ['a1', 'a2', 'zz']

KINDS = {
    'plain': (None, ()),
    'space': (lambda m: Envs.SpaceWorld(m, 3, 2, 0), (1.5, 0.5, 0)),
    'discrete': (lambda m: Envs.DiscreteWorld(m, 3, 2, 2), (1, 1, 1)),
    'line': (lambda m: Envs.LineWorld(m, 3), (1,)),
    'grid': (lambda m: Envs.GridWorld(m, 3, 2), (2, 1)),
    'grid_wrap': (lambda m: Envs.GridWorld(m, 3, 2, wrap_env=True), (2, 1)),
    'space_wrap': (lambda m: Envs.SpaceWorld(m, 3, 2, 0, wrap_env=True), (1.5, 0.5, 0)),
}

META = {
    'rule': 'BFS over histories of join/leave/attach/detach/attach+register/deregister+detach on real agents and '
            'environments, per world kind; distinct_nontrivial counts distinct observations (exception, residents, '
            'listing per type)',
    'alphabet': {'agents(key,id)': AGENTS, 'component_types': ['X', 'Y'], 'world_kinds': sorted(KINDS),
                 'ops': 'join(key), leave(id in a1,a2,zz), attach(key,T), detach(key,T), attach_reg(key,T) and '
                        'dereg_detach(key,T) on residents; second model: join2/leave2 of its own agent holding X,Y'},
    'bounds': {'quick': 'plain with agents a1,a1b,a2 and space, grid with a1,a2: fixpoint of the trigger-free region, '
                        '2 operations deep behind the first trigger; plain two-model product to depth 4',
               'also': 'join/leave-only walk over four distinct agents with pre-attached components (plain, grid; thorough: all '
                       'kinds) to the fixpoint',
               'thorough': 'all five kinds with a1,a1b,a2 to the fixpoint, 3 operations behind the first trigger; '
                           'two-model product on plain and grid to depth 6'},
    'assumptions': ['one component instance per (agent, type); component classes use identity equality',
                    'PositionComponent is filtered out (managed by the spatial world itself)',
                    'cells table of grid worlds dropped from the state hash (no cell-component op in the alphabet)'],
}


class P2(Envs.PositionComponent):
    """A user-defined component type that derives from the position component the spatial worlds manage themselves."""


class F(Core.Component):
    """A container-like component: falsy while it holds nothing."""

    def __len__(self):
        return 0


class Resource(Core.Component, metaclass=abc.ABCMeta):
    """A family of component types written with abc (the classes' metaclass is ABCMeta, not type)."""

    @abc.abstractmethod
    def unit(self):
        ...


class Water(Resource):
    def unit(self):
        return 'l'


class Stock(Core.Component):
    """Identity equality is kept; the hash follows a field that changes while the model runs."""
    level = 0

    def __hash__(self):
        return hash(('Stock', self.level))


class Ledger(Core.Component):
    """Identity equality, not hashable."""
    __hash__ = None


class Inventory(Core.Component):
    """A component that can be iterated (it yields the items it holds, not components)."""

    def __iter__(self):
        return iter(('axe', 'rope'))

    def __len__(self):
        return 2


class Shallow(Core.Component):
    """A user component type with a subtype; an agent may carry one of each (two distinct types)."""


class Deep(Shallow):
    pass


# a user's own component type that happens to be called PositionComponent (a plain Component, nothing to do with the worlds)
NamedLikePosition = type('PositionComponent', (Core.Component,), {'__doc__': 'user type named like the bundled one'})


class Bag(Core.Agent):
    """An agent class with its own notion of length (e.g. the number of items it carries): here always 0."""

    def __len__(self):
        return 0


class Pack(Core.Agent):
    """Agents with value equality: all members of a pack compare equal (and hash alike)."""

    def __eq__(self, other):
        return isinstance(other, Pack)

    def __hash__(self):
        return 17


def odd_agent(i, m):
    """Every tenth agent of a population is a nested (empty) environment used as an agent, another tenth a Bag, two
    tenths are members of one Pack (they compare equal), and one tenth belongs to a class that carries CLASS components
    of the very types its instances carry themselves (class components are the class's, not the instance's)."""
    if i % 10 == 7:
        return Core.Environment(m, f'g{i}')
    if i % 10 == 3:
        return Bag(f'g{i}', m)
    if i % 10 in (1, 9):
        return Pack(f'g{i}', m)
    if i % 10 == 5:
        Herd = type('Herd', (Core.Agent,), {})
        Herd.add_class_component(X(Herd, m))
        Herd.add_class_component(Y(Herd, m))
        return Herd(f'g{i}', m)
    return Core.Agent(f'g{i}', m)


class DModel(Core.Model):
    @staticmethod
    def decode(params):
        return new_model(seed=params.get('seed'), cls=DModel)


class Citizen(Core.Agent):
    def __init__(self, id, model):
        super().__init__(id, model)
        self.add_component(X(self, model))

    @staticmethod
    def decode(params):
        return Citizen(params['prefix'] + str(params['agent_index']), params['model'])


class Officer(Citizen):
    def __init__(self, id, model):
        super().__init__(id, model)
        self.add_component(Y(self, model))

    @staticmethod
    def decode(params):
        return Officer(params['prefix'] + str(params['agent_index']), params['model'])


def build_world(params):
    mk, _ = KINDS[params['kind']]
    model = params['model']
    if params.get('how') == 'set_environment':
        model.set_environment(mk(model) if mk is not None else Core.Environment(model))
    else:
        model.environment = mk(model) if mk is not None else Core.Environment(model)


def decoded_case(case):
    """The population is created by the decoder; the world the agents are meant to live in is installed by a hook that
    runs just before the first group is created.  Afterwards each listing mirrors the residents of the model's
    environment; two models decoded from one description stay apart."""
    from mc.engine.seams import reset_library
    from ECAgent.Decode import Decoder
    reset_library()

    class Dict(Decoder):
        def open_file(self, file_name):
            return copy.deepcopy(file_name)
    hook = {'func': 'build_world', 'module': __name__, 'params': {'kind': case['kind'], 'how': case['how']}}
    groups = []
    for gi, (name, n) in enumerate(case['groups']):
        g = {'name': name, 'module': __name__, 'number': n, 'params': {'prefix': f'{name[0].lower()}{gi}_'}}
        if gi == 0 and case['hook'] == 'pre_agent_init':
            g['pre_agent_init'] = copy.deepcopy(hook)
        groups.append(g)
    desc = {'model': {'name': 'DModel', 'module': __name__, 'params': {'seed': 1}}, 'systems': [], 'agents': groups}
    if case['hook'] == 'system_hook':
        desc['systems'] = []
    models = [Dict().decode(desc), Dict().decode(desc)]
    for m in models:
        res = list(m.environment)
        exp_ids = [f'{name[0].lower()}{gi}_{i}' for gi, (name, n) in enumerate(case['groups']) for i in range(n)]
        if [a.id for a in res] != exp_ids:
            raise Violation(f'decoded population ({case}): residents of the model\'s environment', expected=exp_ids,
                            observed=[a.id for a in res])
        for T in (X, Y):
            exp = [a[T] for a in res if T in a] or None
            got = m.systems[T]
            if (got is None) != (exp is None) or (got is not None and [id(c) for c in got] != [id(c) for c in exp]):
                raise Violation(f'decoded population ({case}): listing of {T.__name__} differs from the components of the '
                                f'agents in the model\'s environment', expected=exp and [c.agent.id for c in exp],
                                observed=got and [c.agent.id for c in got])
    a, b = models
    if exp_ids:
        a.environment.remove_agent(exp_ids[0])
        gx = a.systems[X]
        if [c.agent.id for c in (gx or [])] != exp_ids[1:] or [c.agent.id for c in (b.systems[X] or [])] != exp_ids:
            raise Violation(f'decoded population ({case}): after the first agent left one of two models')
    return 2 * len(exp_ids) + 1


def decoded_cases():
    for kind in ('plain', 'grid', 'space'):
        for how in ('assign', 'set_environment'):
            for hook in ('pre_agent_init', 'none'):
                for groups in ([['Citizen', 3], ['Officer', 2]], [['Officer', 1]], [['Citizen', 0], ['Officer', 2]]):
                    if hook == 'none' and (how != 'assign' or kind != 'plain'):
                        continue
                    yield {'leg': 'decoded', 'kind': kind, 'how': how, 'hook': hook, 'groups': groups}


def in_system_case(case):
    """Listings read from INSIDE a system's turn: read, let an agent join / leave, read again - within one execute()."""
    from mc.engine.seams import reset_library
    reset_library()
    m = new_model(seed=1)
    mk, pos = KINDS[case['kind']]
    if mk is not None:
        m.environment = mk(m)
    env = m.environment
    agents = []
    for i in range(4):
        a = Core.Agent(f'g{i}', m)
        a.add_component(X(a, m))
        if i % 2:
            a.add_component(Y(a, m))
        agents.append(a)
    for a in agents[:3]:
        env.add_agent(a, *pos)
    problems = []

    def listed(T):
        got = m.systems[T]
        return [c.agent.id for c in got] if got else None

    class Census(Core.System):
        def execute(self):
            res = [a.id for a in env]
            for step in case['steps']:
                for T in (X, Y):
                    want = [a.id for a in env if T in a.components] or None
                    if listed(T) != want:
                        problems.append((self.model.systems.timestep, step, T.__name__, want, listed(T)))
                if step == 'join':
                    env.add_agent(agents[3], *pos)
                elif step == 'leave':
                    env.remove_agent('g1')
                elif step == 'rejoin':
                    env.add_agent(agents[1], *pos)
                elif step == 'leave3':
                    env.remove_agent('g3')
    m.systems.add_system(Census('census', m))
    m.execute()
    if problems:
        t, step, T, want, got = problems[0]
        raise Violation(f'listing of {T} read inside a system\'s turn, before its step {step!r} of {case["steps"]} ({case["kind"]} '
                        f'world)', expected=want, observed=got)
    return len(case['steps'])


def in_system_cases():
    for kind in ('plain', 'grid'):
        for steps in (['join', 'read'], ['leave', 'read'], ['leave', 'rejoin', 'read'], ['join', 'leave', 'leave3', 'read'],
                      ['read', 'join', 'read', 'leave', 'read']):
            yield {'leg': 'in_system', 'kind': kind, 'steps': steps}


def handover_case(case):
    """An environment built for one model is handed over to another (set_model + set_environment): from then on its
    agents' components are listed by the new model only."""
    from mc.engine.seams import reset_library
    reset_library()
    ma, mb = new_model(seed=1), new_model(seed=2)
    mk, pos = KINDS[case['kind']]
    env = mk(ma) if mk is not None else Core.Environment(ma)
    env.add_component(X(env, ma))        # the world is an agent too and carries a component of its own: it lives in no
    #                                      environment, so no model lists that component - whoever installs the world
    if case.get('populate_first'):
        # the world is populated BEFORE it is installed: installing it does not change who lives in it
        settler = Core.Agent('settler', ma)
        cs = X(settler, ma)
        settler.add_component(cs)
        env.add_agent(settler, *pos)
        ma.set_environment(env)
        if ma.systems[X] != [cs] or [a.id for a in ma.environment] != ['settler']:
            raise Violation('a world populated before model.set_environment(world): the model does not list the '
                            'components of the agents living in it', expected=['settler.X'], observed=repr(ma.systems[X]))
        env.remove_agent('settler')
        if ma.systems[X] is not None:
            raise Violation('after the settler left, its component is still listed')
    else:
        ma.set_environment(env)
    first = Core.Agent('early', ma)
    cx0 = X(first, ma)
    first.add_component(cx0)
    if case['early_join']:
        env.add_agent(first, *pos)
        if ma.systems[X] != [cx0] or mb.systems[X] is not None:
            raise Violation('before the handover: listing differs')
        env.remove_agent('early')
    env.set_model(mb)
    mb.set_environment(env)
    a = Core.Agent('late', mb)
    cx, cy = X(a, mb), Y(a, mb)
    a.add_component(cx)
    a.add_component(cy)
    env.add_agent(a, *pos)
    if mb.systems[X] != [cx] or mb.systems[Y] != [cy]:
        raise Violation('after an environment was handed over to another model, the new model does not list the '
                        'components of agents joining it', expected=['late.X'], observed=repr(mb.systems[X]))
    if ma.systems[X] is not None or ma.systems[Y] is not None:
        raise Violation('after the handover the OLD model lists components of agents that joined the new model\'s '
                        'environment', expected=None, observed=repr(ma.systems[X]))
    env.remove_agent('late')
    if mb.systems[X] is not None or mb.systems[Y] is not None:
        raise Violation('after the agent left, the new model still lists its components')
    return 4


def scale_case(case):
    """E2 leg: a population of n agents (components X on all, Y on odd ones, the user type P2 on every third) joins a
    world; chosen victims leave and re-join; optionally the model is marked complete at a chosen point.  After every
    operation each listing must be the components of the residents in joining order."""
    from mc.engine.seams import reset_library
    reset_library()
    kind, n = case['kind'], case['n']
    m = new_model(seed=1)
    mk, pos = KINDS[kind]
    if mk is not None:
        m.environment = mk(m)
    env = m.environment
    # (the subtype Deep is attached BEFORE its base type Shallow on the agents that carry both)
    types = {'X': X, 'Y': Y, 'P2': P2, 'F': F, 'W': Water, 'S': Stock, 'L': Ledger, 'N': NamedLikePosition, 'I': Inventory,
             'D': Deep, 'B': Shallow}
    carries = {'X': lambda i: True, 'Y': lambda i: i % 2, 'P2': lambda i: i % 3 == 0, 'F': lambda i: i % 4 == 1,
               'W': lambda i: i % 4 == 2, 'S': lambda i: i % 3 == 1, 'L': lambda i: i % 5 == 0, 'N': lambda i: i % 4 == 3,
               'I': lambda i: i % 3 == 1, 'D': lambda i: i % 3 == 2, 'B': lambda i: i % 2 == 0}
    agents, comps = [], {}
    stocks = []
    for i in range(n):
        a = odd_agent(i, m)
        for T in [T for T in types if carries[T](i)]:
            # every tenth agent's components were built before the agent existed (their back-reference is empty): they
            # are the agent's components all the same
            c = types[T](None if i % 10 == 2 and T != 'P2' else a, m)
            a.add_component(c)
            comps[id(c)] = (i, T)
            if T == 'S':
                stocks.append(c)
        agents.append(a)
    res = []

    def check(what):
        for T, cls in types.items():
            exp = [(i, T) for i in res if carries[T](i)]
            def pool_by_index():
                try:
                    return m.systems.component_pools[cls] or None      # indexing, as the register_component docstring shows
                except KeyError:
                    return None
            for how, got in (('systems[T]', m.systems[cls]), ('get_components(T)', m.systems.get_components(cls)),
                             ('component_pools[T]', pool_by_index()), ('systems[T] after the pool was indexed', m.systems[cls])):
                got_n = None if got is None else [comps.get(id(c), ('?', type(c).__name__)) for c in got]
                if got_n != (exp or None):
                    raise Violation(f'{what}: listing of {T} differs from the residents\' components in joining order '
                                    f'({kind}, {n} agents; read through {how})', expected=exp[:12],
                                    observed=(got_n or [])[:12])
            try:
                got = m.systems[cls, True]
            except KeyError:
                got = None
            if (got is None) != (not exp) or (got is not None and len(got) != len(exp)):
                raise Violation(f'{what}: systems[{T}, True] ({kind}, {n} agents)', expected=len(exp),
                                observed=None if got is None else len(got))
        for c in stocks:            # the stocks change while the model runs
            c.level += 1
        if [a.id for a in env] != [f'g{i}' for i in res]:
            raise Violation(f'{what}: residents differ')

    steps = 0
    for i in range(n):
        if case.get('complete_at') == ('join', i):
            m.complete()
        env.add_agent(agents[i], *pos)
        res.append(i)
        steps += 1
    check('after all joined')
    if mk is not None and hasattr(env, 'move'):
        # residents move about (across the seam of a wrapping world too): nobody joins or leaves, the listings stay put
        for j in (0, min(1, n - 1)):
            env.move(agents[res[j]], 5, -5)
            env.move(agents[res[j]], -1, 0)
        check('after two residents moved (across the edges)')
    if mk is not None and not case.get('quiet'):
        # an agent that already carries a position component of its own asks to join the spatial world: whether the world
        # takes it or refuses it (with whatever error), its components are listed exactly if it is resident afterwards
        intr = Core.Agent('intruder', m)
        cx = X(intr, m)
        intr.add_component(cx)
        intr.add_component(Envs.PositionComponent(intr, m, 0, 0, 0))
        try:
            env.add_agent(intr, *pos)
        except Exception:      # noqa - refused
            pass
        resident = env.get_agent('intruder') is intr
        listed = any(c is cx for c in (m.systems[X] or []))
        if resident != listed:
            raise Violation(f'an agent carrying its own PositionComponent asked to join the {kind} world: afterwards it is '
                            f'{"resident" if resident else "not resident"} but its X component is {"listed" if listed else "not listed"}',
                            expected=resident, observed=listed)
        if resident:
            try:
                env.remove_agent('intruder')
            except Exception:      # noqa
                pass
            if env.get_agent('intruder') is None and any(c is cx for c in (m.systems[X] or [])):
                raise Violation(f'the intruder left the {kind} world but its X component is still listed')
            if env.get_agent('intruder') is intr:
                res.append('intruder-stuck')       # (a known-finding path: leave it out of the rest of this case)
                return steps, (kind, n, 'intruder stuck')
    if case.get('quiet'):
        # nobody looks at the listings while the victims leave (all of them, in order) and come back (in order): one
        # read before, one read after
        for v in case['victims']:
            env.remove_agent(f'g{v}')
            res.remove(v)
        for v in case['victims']:
            env.add_agent(agents[v], *pos)
            res.append(v)
        steps += 2 * len(case['victims'])
        check(f'after {case["victims"]} left and re-joined with no read in between')
        return steps, (kind, n, tuple(case['victims']), 'quiet')
    for v in case['victims']:
        if case.get('complete_at') == ('leave', v):
            m.complete()
        env.remove_agent(f'g{v}')
        res.remove(v)
        check(f'after g{v} left')
        env.add_agent(agents[v], *pos)
        res.append(v)
        check(f'after g{v} re-joined')
        steps += 2
    return steps, (kind, n, tuple(case['victims']))


def scale_cases(tier):
    kinds = ('plain', 'grid', 'grid_wrap') if tier == 'quick' else ('plain', 'space', 'discrete', 'line', 'grid', 'grid_wrap',
                                                                    'space_wrap')
    for kind in kinds:
        for n in (5, 40):
            for victims in ([0], [1, 3], [n // 2, 0, n - 1], [n - 1]) + (([5, 9, 11], [21, 1, 15]) if n == 40 else ()):
                for comp in (None, ('join', 2), ('leave', victims[0])):
                    yield {'leg': 'population', 'kind': kind, 'n': n, 'victims': victims,
                           'complete_at': comp}
            for victims in ([0], [0, n - 1], [1, n - 1], [n // 2, 0, n - 1], [n - 1, 0]):
                yield {'leg': 'population', 'kind': kind, 'n': n, 'victims': victims, 'complete_at': None, 'quiet': True}


class World:
    pass


class Strict:
    """S: what the property states."""

    def __init__(self, keys):
        self.res = []                       # resident keys in joining order
        self.comps = {k: [] for k in keys}

    def listing(self, T):
        out = [f'{k}.{T}' for k in self.res if T in self.comps[k]]
        return out or None


class AsIs:
    """K: the pinned implementation's pool discipline (plain lists and dicts)."""

    def __init__(self, keys, spatial):
        self.res = []
        self.comps = {k: [] for k in keys}
        self.pools = {}
        self.spatial = spatial
        self.has_pos = {k: False for k in keys}

    def listing(self, T):
        return list(self.pools[T]) if T in self.pools else None

    def register(self, c, T):
        if T not in self.pools:
            self.pools[T] = [c]
        elif c in self.pools[T]:
            return 'KeyError'
        else:
            self.pools[T].append(c)
        return None

    def deregister(self, c, T):
        if T not in self.pools or c not in self.pools[T]:
            return 'KeyError'
        self.pools[T].remove(c)
        if not self.pools[T]:
            del self.pools[T]
        return None

    def join(self, key, ident):
        if ident(key) in [ident(k) for k in self.res]:
            return 'DuplicateAgentError'
        self.res.append(key)
        for T in self.comps[key]:
            e = self.register(f'{key}.{T}', T)
            if e:
                return e
        if self.spatial:
            if self.has_pos[key]:
                return 'ValueError'
            self.has_pos[key] = True
        return None

    def leave(self, aid, ident):
        hit = [k for k in self.res if ident(k) == aid]
        if not hit:
            return 'AgentNotFoundError'
        key = hit[0]
        if self.spatial:
            if not self.has_pos[key]:
                return 'ComponentNotFoundError'
            self.has_pos[key] = False
        for T in self.comps[key]:
            e = self.deregister(f'{key}.{T}', T)
            if e:
                return e
        self.res.remove(key)
        return None


class Harness:
    def __init__(self, kind, two_models=False, agents=None, taint_depth=2, preattached=None, structural=True):
        self.kind = kind
        # preattached: {agent key: "XY"} components attached before the walk starts; structural=False offers only
        # join / leave (used for populations of three distinct agents, where pool ORDER under removal from the
        # front / middle becomes observable)
        self.preattached = dict(preattached or {})
        self.structural = structural
        # the region behind a trigger (pools and agents out of sync) is unbounded in interesting ways but is
        # not what the property is about: it is explored to taint_depth operations from the first trigger
        # (counting it) - enough for F3, which needs one op after F1/F2 - and the bound is reported
        self.taint_depth = taint_depth
        self.two = two_models
        self.agents = [tuple(a) for a in (agents or AGENTS)]
        self.keys = [a[0] for a in self.agents]
        self.idof = dict(self.agents)
        self.config = {'kind': kind, 'two_models': two_models, 'agents': [list(a) for a in self.agents],
                       'taint_depth': taint_depth, 'preattached': self.preattached, 'structural': structural}
        self.cn = Canon(drop={('DiscreteWorld', 'cells'), ('LineWorld', 'cells'), ('GridWorld', 'cells')})
        self.ids = sorted({a[1] for a in self.agents}) + ['zz']

    # ------------------------------------------------------------------------------------------------
    def _mk_model(self):
        m = new_model(seed=1)
        mk, pos = KINDS[self.kind]
        if mk is not None:
            m.environment = mk(m)
        return m, pos

    def fresh(self):
        w = World()
        w.model, w.pos = self._mk_model()
        w.agents = {k: Core.Agent(i, w.model) for k, i in self.agents}
        w.comp = {(k, T): TYPES[T](w.agents[k], w.model) for k in self.keys for T in TYPES}
        w.name = {id(c): f'{k}.{T}' for (k, T), c in w.comp.items()}
        w.S = Strict(self.keys)
        w.K = AsIs(self.keys, self.kind != 'plain')
        for k, types in self.preattached.items():
            for T in types:
                w.agents[k].add_component(w.comp[(k, T)])
                w.S.comps[k].append(T)
                w.K.comps[k].append(T)
        w.triggers = []          # trigger kinds met so far, in order
        w.taint_steps = 0        # operations applied since (and including) the first trigger
        w.last = None
        w.known_now = None
        if self.two:
            w.model2, _ = self._mk_model()
            w.b1 = Core.Agent('b1', w.model2)
            w.bcomp = {T: TYPES[T](w.b1, w.model2) for T in TYPES}
            for T in TYPES:
                w.b1.add_component(w.bcomp[T])
                w.name[id(w.bcomp[T])] = f'b1.{T}'
            w.b_res = False
        return w

    def after_clone(self, w):
        w.name = {id(c): f'{k}.{T}' for (k, T), c in w.comp.items()}
        if self.two:
            w.name.update({id(c): f'b1.{T}' for T, c in w.bcomp.items()})

    def ident(self, key):
        return self.idof[key]

    def ops(self, w):
        if w.taint_steps >= self.taint_depth:
            return []
        ops = [['join', k] for k in self.keys] + [['leave', i] for i in self.ids]
        for k in (self.keys if self.structural else ()):
            for T in TYPES:
                ops.append(['attach', k, T])
                ops.append(['detach', k, T])
                # the paired explicit calls are offered where they are meaningful: on agents resident in the
                # ideal world (S) whose component set allows the attach / detach
                if k in w.S.res:
                    if T not in w.S.comps[k]:
                        ops.append(['attach_reg', k, T])
                    else:
                        ops.append(['dereg_detach', k, T])
        if self.two:
            ops += [['join2'], ['leave2']]
        return ops

    # ------------------------------------------------------------------------------------------------
    def _listing(self, model, T):
        sm = model.systems
        got = sm[TYPES[T]]
        got2 = sm.get_components(TYPES[T])
        if (got is None) != (got2 is None) or (got is not None and list(got) != list(got2)):
            raise Violation(f'systems[{T}] and get_components({T}) disagree')
        try:
            got3 = sm.get_components(TYPES[T], throw_error=True)
            if got is None:
                raise Violation(f'get_components({T}, throw_error=True) returned {got3!r} although nothing is listed',
                                expected='KeyError', observed=repr(got3))
        except KeyError:
            if got is not None:
                raise Violation(f'get_components({T}, throw_error=True) raised although components are listed')
        if got is None:
            return None
        if not isinstance(got, list):
            raise Violation(f'listing of {T} is not a list', observed=repr(got))
        if len(got) == 0:
            return []
        return [self._cname(c) for c in got]

    def _cname(self, c):
        return self._names.get(id(c), f'?{type(c).__name__}')

    def observe(self, w, exc):
        self._names = w.name
        env = w.model.environment
        res = [self._akey(w, a) for a in env]
        obs = {'exc': exc, 'residents': res, 'X': self._listing(w.model, 'X'), 'Y': self._listing(w.model, 'Y')}
        if self.two:
            obs['X2'] = self._listing(w.model2, 'X')
            obs['Y2'] = self._listing(w.model2, 'Y')
            obs['residents2'] = [a.id for a in w.model2.environment]
        return obs

    def _akey(self, w, a):
        for k, o in w.agents.items():
            if o is a:
                return k
        return f'?{getattr(a, "id", a)}'

    def _do(self, w, op):
        """Perform op on the real objects; returns the name of the exception raised (or None)."""
        kind = op[0]
        env = w.model.environment
        try:
            if kind == 'join':
                env.add_agent(w.agents[op[1]], *w.pos)
            elif kind == 'leave':
                env.remove_agent(op[1])
            elif kind == 'attach':
                w.agents[op[1]].add_component(w.comp[(op[1], op[2])])
            elif kind == 'detach':
                w.agents[op[1]].remove_component(TYPES[op[2]])
            elif kind == 'attach_reg':
                c = w.comp[(op[1], op[2])]
                w.agents[op[1]].add_component(c)
                w.model.systems.register_component(c)
            elif kind == 'dereg_detach':
                c = w.comp[(op[1], op[2])]
                w.model.systems.deregister_component(c)
                w.agents[op[1]].remove_component(TYPES[op[2]])
            elif kind == 'join2':
                w.model2.environment.add_agent(w.b1, *w.pos)
            elif kind == 'leave2':
                w.model2.environment.remove_agent('b1')
            else:
                raise ValueError(op)
        except (Core.DuplicateAgentError, Core.AgentNotFoundError, Core.ComponentNotFoundError, KeyError,
                ValueError) as e:
            if kind not in ('join', 'leave', 'attach', 'detach', 'attach_reg', 'dereg_detach', 'join2', 'leave2'):
                raise
            return type(e).__name__
        return None

    def _step_S(self, w, op):
        S, kind = w.S, op[0]
        if kind == 'join':
            k = op[1]
            if self.ident(k) in [self.ident(r) for r in S.res]:
                return 'DuplicateAgentError'
            S.res.append(k)
        elif kind == 'leave':
            hit = [r for r in S.res if self.ident(r) == op[1]]
            if not hit:
                return 'AgentNotFoundError'
            S.res.remove(hit[0])
        elif kind in ('attach', 'attach_reg'):
            if op[2] in S.comps[op[1]]:
                return 'ValueError'
            S.comps[op[1]].append(op[2])
        elif kind in ('detach', 'dereg_detach'):
            if op[2] not in S.comps[op[1]]:
                return 'ComponentNotFoundError'
            S.comps[op[1]].remove(op[2])
        return None

    def _step_K(self, w, op):
        K, kind = w.K, op[0]
        if kind == 'join':
            return K.join(op[1], self.ident)
        if kind == 'leave':
            return K.leave(op[1], self.ident)
        if kind == 'attach':
            if op[2] in K.comps[op[1]]:
                return 'ValueError'
            K.comps[op[1]].append(op[2])
            return None
        if kind == 'detach':
            if op[2] not in K.comps[op[1]]:
                return 'ComponentNotFoundError'
            K.comps[op[1]].remove(op[2])
            return None
        if kind == 'attach_reg':
            if op[2] in K.comps[op[1]]:
                return 'ValueError'
            K.comps[op[1]].append(op[2])
            return K.register(f'{op[1]}.{op[2]}', op[2])
        if kind == 'dereg_detach':
            e = K.deregister(f'{op[1]}.{op[2]}', op[2])
            if e:
                return e
            if op[2] not in K.comps[op[1]]:
                return 'ComponentNotFoundError'
            K.comps[op[1]].remove(op[2])
            return None
        return None

    def _trigger(self, w, op):
        """Is this op one of the listed triggers, judged before it is applied?"""
        kind = op[0]
        if kind == 'attach' and op[1] in w.K.res and op[2] not in w.K.comps[op[1]]:
            return 'F1'
        if kind == 'detach' and op[1] in w.K.res and op[2] in w.K.comps[op[1]]:
            return 'F2'
        if kind == 'attach_reg' and op[1] in w.S.res:
            i = w.S.res.index(op[1])
            if any(op[2] in w.S.comps[j] for j in w.S.res[i + 1:]):
                return 'F6'
        return None

    def known(self, w):
        return w.known_now

    def apply(self, w, op):
        w.known_now = None
        kind = op[0]
        if kind in ('join2', 'leave2'):
            if w.triggers:
                w.taint_steps += 1
            exc = self._do(w, op)
            want = None
            if kind == 'join2':
                want = 'DuplicateAgentError' if w.b_res else None
                if not w.b_res:
                    w.b_res = True
            else:
                want = None if w.b_res else 'AgentNotFoundError'
                w.b_res = False
            if exc != want:
                raise Violation(f'{op} on the second model: exception {exc}, expected {want}')
            obs = self.observe(w, None)
            self._compare(w, op, obs, exc_S=None, exc_K=None)
            return
        trig = self._trigger(w, op)
        untainted_before = not w.triggers
        if trig:
            w.triggers.append(trig)
        if w.triggers:
            w.taint_steps += 1
        exc = self._do(w, op)
        eS = self._step_S(w, op)
        eK = self._step_K(w, op)
        if untainted_before and not trig:
            if eS != eK or any(w.S.listing(T) != w.K.listing(T) for T in TYPES) or w.S.res != w.K.res:
                raise HarnessError(f'strict and as-is references disagree on a trigger-free history at {op}')
        obs = self.observe(w, exc)
        self._compare(w, op, obs, eS, eK)

    def _compare(self, w, op, obs, exc_S, exc_K):
        w.last = obs
        expS = {'exc': exc_S, 'residents': list(w.S.res), 'X': w.S.listing('X'), 'Y': w.S.listing('Y')}
        expK = {'exc': exc_K, 'residents': list(w.K.res), 'X': w.K.listing('X'), 'Y': w.K.listing('Y')}
        if self.two:
            two = {'X2': ['b1.X'] if w.b_res else None, 'Y2': ['b1.Y'] if w.b_res else None,
                   'residents2': ['b1'] if w.b_res else []}
            expS.update(two)
            expK.update(two)
        if obs == expS:
            return
        if w.triggers and obs == expK:
            if obs['exc'] == 'KeyError':
                fid = 'F3'
            else:
                fid = w.triggers[0]
            # a known divergence must not prune the search (F3 only shows after F1): it is parked on the world
            # and handed to the engine through known(), which records it and still expands the state
            w.known_now = Violation(f'{op}: listing departs from the resident agents\' components '
                                    f'(as-is pool discipline)', expected=expS, observed=obs, known=fid)
            return
        raise Violation(f'{op}: listing / outcome differs from the components of the resident agents',
                        expected=expS, observed=obs)

    def check(self, w):
        pass

    def canon(self, w):
        roots = [w.model, [w.agents[k] for k in self.keys], [w.comp[(k, T)] for k in self.keys for T in TYPES]]
        if self.two:
            roots += [w.model2, w.b1]
        return (self.cn(*roots), tuple(w.triggers[:1]), w.taint_steps, tuple(w.S.res),
                tuple(tuple(w.S.comps[k]) for k in self.keys))

    def refstate(self, w):
        return (tuple(w.S.res), tuple(tuple(w.S.comps[k]) for k in self.keys), tuple(w.K.res),
                tuple((T, tuple(v)) for T, v in w.K.pools.items()), tuple(sorted(w.K.has_pos.items())),
                getattr(w, 'b_res', None))

    def outcome(self, w):
        return repr(w.last)


# the cheap legs run once more under the runner's ambient configurations (python -O, other logger levels)
AMBIENT_LEGS = True


def run(ctx):
    for case in scale_cases(ctx.tier):
        case = dict(case)
        if case['complete_at'] is not None:
            case['complete_at'] = tuple(case['complete_at'])
        ctx.traces += 1
        ctx.states += 1
        try:
            steps, out = hbfs._guard(scale_case, case)
            ctx.transitions += steps
            ctx.outcome(out)
        except Violation as v:
            ctx.report({k: (list(x) if isinstance(x, tuple) else x) for k, x in case.items()}, v)
            return
    for kind in (('plain', 'grid', 'line') if ctx.tier == 'quick' else tuple(KINDS)):
        for early, pf in ((False, False), (True, False), (True, True)):
            case = {'leg': 'handover', 'kind': kind, 'early_join': early, 'populate_first': pf}
            ctx.traces += 1
            try:
                ctx.transitions += hbfs._guard(handover_case, case)
            except Violation as v:
                ctx.report(case, v)
                return
    for case in in_system_cases():
        ctx.traces += 1
        try:
            ctx.transitions += hbfs._guard(in_system_case, case)
        except Violation as v:
            ctx.report(case, v)
            return
    nd = 0
    for case in decoded_cases():
        ctx.traces += 1
        nd += 1
        try:
            ctx.transitions += hbfs._guard(decoded_case, case)
        except Violation as v:
            ctx.report(case, v)
            return
    ctx.leg('decoded', cases=nd, note='population created by the decoder, world installed by a pre-agent hook; two models')
    ctx.leg('population', note='5 and 40 agents with X / Y / user subclass of PositionComponent; victims leave and '
                               're-join; model marked complete before a join or a leave')
    if ctx.small:
        return
    if ctx.tier == 'quick':
        small = [('a1', 'a1'), ('a2', 'a2')]
        items = [('plain', True, 4, None), ('plain', False, 30, None), ('space', False, 30, small),
                 ('grid', False, 30, small)]
    else:
        items = [('plain', True, 6, None), ('grid', True, 6, None)]
        items += [(k, False, 40, None) for k in ('plain', 'space', 'discrete', 'line', 'grid')]
    # three distinct residents: order of the listing when agents leave from the front / middle and re-join
    three = [('a1', 'a1'), ('a2', 'a2'), ('a3', 'a3'), ('a4', 'a4')]
    for kind in (('plain', 'grid') if ctx.tier == 'quick' else ('plain', 'space', 'discrete', 'line', 'grid')):
        h = Harness(kind, False, three, taint_depth=1, preattached={'a1': 'XY', 'a2': 'X', 'a3': 'YX', 'a4': 'X'},
                    structural=False)
        r = hbfs.explore(ctx, h, f'{kind}:four_agents_join_leave', max_depth=40, procs=ctx.procs, clone=True)
        ctx.leg(f'{kind}:four_agents_join_leave', **r)
        if not r.get('fixpoint'):
            ctx.cap(f'{kind}:four_agents_join_leave: fixpoint not reached')
        if ctx.violations:
            return
    for kind, two, depth, agents in items:
        h = Harness(kind, two, agents, taint_depth=2 if ctx.tier == 'quick' else 3)
        name = f'{kind}{"+2models" if two else ""}'
        r = hbfs.explore(ctx, h, name, max_depth=depth, procs=ctx.procs)
        ctx.leg(name, **r)
        if not two and not r.get('fixpoint'):
            ctx.cap(f'{name}: fixpoint not reached within depth {depth}')
        if two and not r.get('fixpoint'):
            ctx.caps.append(f'{name}: depth bound {depth} (all histories up to that depth covered)')
        if ctx.violations:
            return


def replay(case):
    if case['leg'] == 'decoded':
        hbfs._guard(decoded_case, case)
        return
    if case['leg'] == 'in_system':
        hbfs._guard(in_system_case, case)
        return
    if case['leg'] == 'handover':
        hbfs._guard(handover_case, case)
        return
    if case['leg'] == 'population':
        c = dict(case)
        if c.get('complete_at') is not None:
            c['complete_at'] = tuple(c['complete_at'])
        hbfs._guard(scale_case, c)
        return
    cfg = case['config']
    h = Harness(cfg['kind'], cfg['two_models'], cfg['agents'], cfg.get('taint_depth', 2), cfg.get('preattached'),
                cfg.get('structural', True))
    w = hbfs.replay_case(h, case)
    if w.known_now is not None:
        raise w.known_now
