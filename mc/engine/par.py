"""Parallel map over configurations using harness worker processes (never the code under test's own pool)."""
import multiprocessing
import os
from concurrent.futures import ProcessPoolExecutor

_FN = None


def _work(args):
    ctx_seed, item = args
    c = ctx_seed.child()
    _FN(c, item)
    return c.export()


def pmap(ctx, fn, items, procs=None, chunk=1):
    """Run fn(child_ctx, item) for every item; merge the children's results into ctx (in item order)."""
    global _FN
    items = list(items)
    if procs is None:
        procs = int(os.environ.get('VERIF_PROCS', '0')) or (os.cpu_count() or 1)
    procs = max(1, min(procs, len(items)))
    if procs == 1:
        for it in items:
            c = ctx.child()
            fn(c, it)
            ctx.merge(c.export())
            if ctx.full():
                break
        return
    _FN = fn  # inherited by fork
    mp = multiprocessing.get_context('fork')
    seed_ctx = ctx.child()
    ex = ProcessPoolExecutor(max_workers=procs, mp_context=mp)
    try:
        futs = [ex.submit(_work, (seed_ctx, it)) for it in items]
        for f in futs:                      # merged in item order: the outcome does not depend on timing
            if f.cancelled():
                continue
            ctx.merge(f.result())
            if ctx.violations:              # one confirmed counterexample is enough: do not start further items
                for g in futs:
                    g.cancel()
    finally:
        ex.shutdown(wait=True, cancel_futures=True)
