"""Parallel map over configurations using harness worker processes (never the code under test's own pool)."""
import multiprocessing
import os
from concurrent.futures import ProcessPoolExecutor

_FN = None


def _work(args):
    ctx_seed, item = args
    c = ctx_seed.child()
    _FN(c, item)
    return c.export()


def pmap(ctx, fn, items, procs=None, chunk=1):
    """Run fn(child_ctx, item) for every item; merge the children's results into ctx (in item order)."""
    global _FN
    items = list(items)
    if procs is None:
        procs = int(os.environ.get('VERIF_PROCS', '0')) or (os.cpu_count() or 1)
    procs = max(1, min(procs, len(items)))
    if procs == 1:
        for it in items:
            c = ctx.child()
            fn(c, it)
            ctx.merge(c.export())
            if ctx.full():
                break
        return
    _FN = fn  # inherited by fork
    mp = multiprocessing.get_context('fork')
    seed_ctx = ctx.child()
    with ProcessPoolExecutor(max_workers=procs, mp_context=mp) as ex:
        for res in ex.map(_work, [(seed_ctx, it) for it in items], chunksize=chunk):
            ctx.merge(res)
