"""Run context: counters, violations, known findings, evidence and replay files."""
import json
import os
import time

from .seams import jsonable

VERIF = os.path.dirname(os.path.dirname(os.path.dirname(os.path.abspath(__file__))))
# the two overrides exist for the mutation driver only (so that runs against scratch trees do not clobber the
# committed evidence); no registered command sets them
EVIDENCE_DIR = os.environ.get('VERIF_EVIDENCE_DIR') or os.path.join(VERIF, 'evidence')
REPLAY_DIR = os.environ.get('VERIF_REPLAY_DIR') or os.path.join(VERIF, 'replays')
KNOWN_FILE = os.path.join(VERIF, 'known_findings.json')


class Violation(Exception):
    """Raised by a harness when the implementation departs from the oracle on one concrete case."""

    def __init__(self, msg, expected=None, observed=None, known=None):
        super().__init__(msg)
        self.msg = msg
        self.expected = expected
        self.observed = observed
        self.known = known  # id of a known finding whose signature this divergence matches, else None


class HarnessError(Exception):
    """The machinery itself misbehaved (non-deterministic replay, impossible bookkeeping)."""


def load_known():
    with open(KNOWN_FILE) as f:
        return json.load(f)


class Ctx:
    def __init__(self, pid, tier, seed, tree):
        self.pid = pid
        self.tier = tier
        self.seed = seed
        self.tree = tree
        self.t0 = time.time()
        self.states = 0
        self.transitions = 0
        self.traces = 0
        self.outcomes = set()        # hashes of distinct observable outcomes (vacuity guard)
        self.samples = []
        self.legs = []               # per-leg coverage dictionaries
        self.violations = []         # list of dicts {case, msg, expected, observed}
        self.known_seen = {}         # finding id -> first case that re-observed it
        self.known_count = {}
        self.caps = []               # textual description of every cap that was hit
        self.exhaustive = True
        self.max_violations = 5
        self.small = False           # reduced exploration (interpreter-flags leg): the module's cheap legs only
        self.procs = int(os.environ.get('VERIF_PROCS', '0') or 0) or (os.cpu_count() or 1)
        known = load_known()
        self.known_open = {k['id']: k for k in known.get('open', []) if k['property'] == pid}

    # -- bookkeeping ---------------------------------------------------------------------------------
    def add(self, states=0, transitions=0, traces=0):
        self.states += states
        self.transitions += transitions
        self.traces += traces

    def outcome(self, o):
        self.outcomes.add(hash(o))

    def sample(self, case, limit=6):
        if len(self.samples) < limit:
            self.samples.append(jsonable(case))

    def leg(self, name, **info):
        d = {'leg': name}
        d.update({k: jsonable(v) for k, v in info.items()})
        self.legs.append(d)
        return d

    def cap(self, text):
        self.caps.append(text)
        self.exhaustive = False

    # -- verdicts ------------------------------------------------------------------------------------
    def report(self, case, v):
        """Record a Violation raised while checking ``case``; dispatches known findings."""
        if v.known is not None:
            if v.known in self.known_open:
                self.known_count[v.known] = self.known_count.get(v.known, 0) + 1
                self.known_seen.setdefault(v.known, jsonable(case))
                return
            # matches the as-is behaviour of a finding that is not (or no longer) listed: a real violation
        if len(self.violations) < 200:
            self.violations.append({'case': jsonable(case), 'msg': v.msg, 'expected': jsonable(v.expected),
                                    'observed': jsonable(v.observed)})

    def full(self):
        return len(self.violations) >= self.max_violations

    # -- merging results from harness worker processes ----------------------------------------------
    def export(self):
        return {'states': self.states, 'transitions': self.transitions, 'traces': self.traces,
                'outcomes': self.outcomes, 'samples': self.samples, 'legs': self.legs,
                'violations': self.violations, 'known_seen': self.known_seen, 'known_count': self.known_count,
                'caps': self.caps, 'exhaustive': self.exhaustive}

    def merge(self, d):
        self.states += d['states']
        self.transitions += d['transitions']
        self.traces += d['traces']
        self.outcomes |= d['outcomes']
        for s in d['samples']:
            if len(self.samples) < 6:
                self.samples.append(s)
        self.legs.extend(d['legs'])
        self.violations.extend(d['violations'])
        for k, v in d['known_seen'].items():
            self.known_seen.setdefault(k, v)
        for k, v in d['known_count'].items():
            self.known_count[k] = self.known_count.get(k, 0) + v
        self.caps.extend(d['caps'])
        self.exhaustive = self.exhaustive and d['exhaustive']

    def child(self):
        c = Ctx.__new__(Ctx)
        c.__dict__.update({k: v for k, v in self.__dict__.items()
                           if k in ('pid', 'tier', 'seed', 'tree', 'known_open', 'max_violations', 'procs', 'small')})
        c.t0 = time.time()
        c.states = c.transitions = c.traces = 0
        c.outcomes, c.samples, c.legs, c.violations = set(), [], [], []
        c.known_seen, c.known_count, c.caps, c.exhaustive = {}, {}, [], True
        return c


def merge_legs(legs):
    """Collapse per-configuration leg records with the same name into one summary per leg."""
    out = {}
    for d in legs:
        name = d['leg']
        cur = out.setdefault(name, {'leg': name, 'parts': 0})
        cur['parts'] += 1
        for k, v in d.items():
            if k == 'leg':
                continue
            if isinstance(v, bool):
                cur[k] = cur.get(k, True) and v
            elif isinstance(v, (int, float)) and not isinstance(v, bool):
                if k.startswith('max_') or k in ('depth', 'depth_bound'):
                    cur[k] = max(cur.get(k, v), v)
                else:
                    cur[k] = cur.get(k, 0) + v
            else:
                cur.setdefault(k, v)
    return list(out.values())


def write_evidence(ctx, meta, violations_n):
    os.makedirs(EVIDENCE_DIR, exist_ok=True)
    legs = merge_legs(ctx.legs)
    cov = {
        'states': ctx.states,
        'transitions': ctx.transitions,
        'traces_validated_against_impl': ctx.traces,
        'samples': ctx.samples or [{'note': 'no sample recorded'}],
        'evaluations': ctx.transitions,
        'distinct_nontrivial': len(ctx.outcomes),
        'rule': meta.get('rule', ''),
        'exhaustive': bool(ctx.exhaustive),
        'caps_hit': ctx.caps,
        'legs': legs,
        'alphabet': meta.get('alphabet', {}),
        'bounds': meta.get('bounds', {}),
        'known_findings_reobserved': {k: ctx.known_count[k] for k in sorted(ctx.known_count)},
        'tree': ctx.tree,
        'explanation': meta.get('explanation', ''),
    }
    ev = {
        'property_id': ctx.pid,
        'tier': ctx.tier,
        'seed': ctx.seed,
        'level': 'model_checking',
        'coverage': cov,
        'assumptions': meta.get('assumptions', []),
        'wall_s': round(time.time() - ctx.t0, 3),
        'violations': violations_n,
    }
    path = os.path.join(EVIDENCE_DIR, f'{ctx.pid}.json')
    tmp = path + '.tmp'
    with open(tmp, 'w') as f:
        json.dump(ev, f, indent=1, sort_keys=False)
        f.write('\n')
    os.replace(tmp, path)
    return path, ev


def write_replay(pid, n, viol, tier, seed):
    os.makedirs(REPLAY_DIR, exist_ok=True)
    path = os.path.join(REPLAY_DIR, f'{pid}-{n}.json')
    with open(path, 'w') as f:
        json.dump({'property': pid, 'tier': tier, 'seed': seed, 'case': viol['case'], 'msg': viol['msg'],
                   'expected': viol['expected'], 'observed': viol['observed']}, f, indent=1)
        f.write('\n')
    return path
