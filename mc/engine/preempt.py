"""E5 - two callers, one preemption: every point at which a second thread can cut into a library call.

A call ``fa()`` is executed under a line tracer.  At its k-th line event *inside library code* a second, real thread
is started that runs ``fb()``; the first thread waits for it (if the second thread blocks - on a lock the first one
holds - the first thread carries on after a short grace period and the second finishes later).  Then ``fa`` resumes.
Enumerating k over all line events of ``fa`` gives every schedule of the two calls with exactly one preemption of
``fa`` in which ``fb`` runs to completion - the schedules in which scratch state shared between the two calls (an
attribute on the object, a class-level or module-level buffer) is overwritten half-way.  Zero preemptions (fa; fb and
fb; fa) are the sequential orders the other engines cover.

Deterministic: the schedule is fixed by k (no timing involved unless a lock is met), so a violation is replayed by
running the same pair with the same k.
"""
import os
import sys
import threading


def _lib_dir():
    import ECAgent
    return os.path.dirname(os.path.abspath(ECAgent.__file__))


class _Box:
    def __init__(self):
        self.value = None
        self.error = None

    def run(self, fn):
        try:
            self.value = fn()
        except BaseException as e:      # noqa - reported to the caller of explore()
            self.error = e


def _traced(fa, on_line):
    """Run fa() calling on_line() at every line event of a frame whose code lives in the library."""
    lib = _lib_dir()

    def local(frame, event, arg):
        if event == 'line':
            on_line()
        return local

    def glob(frame, event, arg):
        if event == 'call' and frame.f_code.co_filename.startswith(lib):
            return local
        return None
    box = _Box()
    old = sys.gettrace()
    sys.settrace(glob)
    try:
        box.run(fa)
    finally:
        sys.settrace(old)
    return box


def count_points(fa):
    n = [0]

    def on_line():
        n[0] += 1
    box = _traced(fa, on_line)
    return n[0], box


def run_schedule(fa, fb, k, grace=2.0):
    """fa with fb cutting in at line event k.  Returns (box_a, box_b, blocked)."""
    n = [0]
    state = {'thread': None, 'box': _Box(), 'blocked': False}

    def on_line():
        if n[0] == k and state['thread'] is None:
            t = threading.Thread(target=state['box'].run, args=(fb,), daemon=True)
            state['thread'] = t
            t.start()
            t.join(grace)
            if t.is_alive():
                state['blocked'] = True      # fb waits for something fa holds: fa goes on, fb finishes afterwards
        n[0] += 1
    box_a = _traced(fa, on_line)
    t = state['thread']
    if t is None:                 # k beyond the end of fa: fb simply runs afterwards
        state['box'].run(fb)
    else:
        t.join(30.0)
        if t.is_alive():
            state['box'].error = TimeoutError('the second caller never finished')
    return box_a, state['box'], state['blocked']


def explore(make, max_points=4000, stride=1):
    """make() -> (fa, fb) on FRESH objects (called once per schedule).  Yields (k, box_a, box_b, blocked) for every
    preemption point k = 0, stride, 2*stride ... of fa; the first element yielded is ('n', number of points)."""
    fa, fb = make()
    n, _ = count_points(fa)
    yield 'n', n
    for k in range(0, min(n, max_points), stride):
        fa, fb = make()
        yield (k,) + run_schedule(fa, fb, k)


def check_pair(make, judge, k=None):
    """Run explore() (or the single schedule k) for one pair; judge(k, box_a, box_b) raises on a wrong answer.
    Returns the number of schedules executed.  A violation carries the preemption point as attribute case_k."""
    n = 0
    if k is not None:
        fa, fb = make()
        box_a, box_b, _ = run_schedule(fa, fb, k)
        judge(k, box_a, box_b)
        return 1
    for item in explore(make):
        if item[0] == 'n':
            continue
        kk, box_a, box_b, _ = item
        n += 1
        try:
            judge(kk, box_a, box_b)
        except Exception as v:      # noqa - annotated and passed on
            v.case_k = kk
            raise
    return n


# ---------------------------------------------------------------------------------------------------------
# two preemptions, at call granularity: fa is cut at its k-th library CALL, fb runs until ITS j-th library call and is
# held there, fa runs to completion, then fb finishes.  (One preemption is explored at every line, see above; the second
# bound is explored at function-entry granularity: n_a x n_b schedules instead of lines_a x lines_b.)
# ---------------------------------------------------------------------------------------------------------

def _traced_calls(fn, on_call):
    lib = _lib_dir()

    def glob(frame, event, arg):
        if event == 'call' and frame.f_code.co_filename.startswith(lib):
            on_call()
        return None
    box = _Box()
    old = sys.gettrace()
    sys.settrace(glob)
    try:
        box.run(fn)
    finally:
        sys.settrace(old)
    return box


def count_calls(fn):
    n = [0]

    def on_call():
        n[0] += 1
    box = _traced_calls(fn, on_call)
    return n[0], box


def run_schedule2(fa, fb, k, j, grace=5.0):
    """fa until its k-th library call; fb until its j-th library call (held there); fa to its end; fb to its end."""
    na = [0]
    state = {'thread': None, 'box_b': _Box()}
    held = threading.Event()        # fb has reached its j-th call (or has finished)
    release = threading.Event()     # fa has finished: fb may go on

    def b_body():
        nb = [0]

        def on_call_b():
            if nb[0] == j:
                held.set()
                release.wait(30.0)
            nb[0] += 1
        try:
            state['box_b'] = _traced_calls(fb, on_call_b)
        finally:
            held.set()

    def on_call_a():
        if na[0] == k and state['thread'] is None:
            t = threading.Thread(target=b_body, daemon=True)
            state['thread'] = t
            t.start()
            held.wait(grace)
        na[0] += 1
    box_a = _traced_calls(fa, on_call_a)
    release.set()
    t = state['thread']
    if t is None:
        state['box_b'].run(fb)
    else:
        t.join(30.0)
        if t.is_alive():
            state['box_b'].error = TimeoutError('the second caller never finished')
    return box_a, state['box_b']


def check_pair2(make, judge, kj=None):
    """Every schedule (k, j) of run_schedule2 for one pair (or the single one given); judge(k, j, box_a, box_b) raises on
    a wrong answer.  Returns the number of schedules; a violation carries case_kj."""
    if kj is not None:
        fa, fb = make()
        box_a, box_b = run_schedule2(fa, fb, kj[0], kj[1])
        judge(kj[0], kj[1], box_a, box_b)
        return 1
    fa, fb = make()
    n_a, _ = count_calls(fa)
    fa, fb = make()
    n_b, _ = count_calls(fb)
    n = 0
    for k in range(n_a):
        for j in range(n_b):
            fa, fb = make()
            box_a, box_b = run_schedule2(fa, fb, k, j)
            n += 1
            try:
                judge(k, j, box_a, box_b)
            except Exception as v:      # noqa - annotated and passed on
                v.case_kj = [k, j]
                raise
    return n
