"""Seams owned by the harness: scripted RNG, canonical introspection, class-state reset.

Nothing in here imports ECAgent at module import time: the runner decides which tree is under test first.
"""
import logging
import random
import sys
import types
from fractions import Fraction


# ---------------------------------------------------------------------------------------------------------
# Scripted random source
# ---------------------------------------------------------------------------------------------------------

class ScriptExhausted(Exception):
    pass


class ScriptedRandom(random.Random):
    """random.Random whose integer draws are answered from a script.

    CPython's ``choice`` asks ``_randbelow(len(seq))`` once and ``shuffle`` asks ``_randbelow(i + 1)`` for
    i = n-1 .. 1.  Enumerating scripts therefore enumerates every pick / every permutation.  Every question
    asked is logged in ``asked``; a draw through any other primitive (random(), getrandbits()) is logged in
    ``foreign`` so a caller can see the model generator was used in an uncontrolled way.
    """

    def __init__(self, script=()):
        super().__init__(0)
        self.script = list(script)
        self.pos = 0
        self.asked = []
        self.foreign = []

    def _randbelow(self, n):
        self.asked.append(n)
        if self.pos >= len(self.script):
            raise ScriptExhausted(f'draw #{self.pos} below {n} not scripted')
        v = self.script[self.pos]
        self.pos += 1
        if not 0 <= v < n:
            raise ScriptExhausted(f'scripted answer {v} not below {n}')
        return v

    def random(self):
        self.foreign.append('random')
        return super().random()

    def getrandbits(self, k):
        self.foreign.append('getrandbits')
        return super().getrandbits(k)

    def consumed(self):
        return self.pos == len(self.script)


def all_scripts(bounds):
    """Every answer script for a sequence of _randbelow questions with the given bounds."""
    if not bounds:
        yield ()
        return
    head, rest = bounds[0], bounds[1:]
    for v in range(head):
        for tail in all_scripts(rest):
            yield (v,) + tail


# ---------------------------------------------------------------------------------------------------------
# Canonical introspection
# ---------------------------------------------------------------------------------------------------------

_SLOTS_CACHE = {}


def _slot_names(t):
    names = _SLOTS_CACHE.get(t)
    if names is None:
        names = []
        seen = set()
        for klass in t.__mro__:
            slots = klass.__dict__.get('__slots__', ())
            if isinstance(slots, str):
                slots = (slots,)
            for s in slots:
                if s in ('__dict__', '__weakref__') or s in seen:
                    continue
                seen.add(s)
                names.append(s)
        _SLOTS_CACHE[t] = names = tuple(names)
    return names


def _fields(o):
    """All instance fields of ``o``: slots of every class in the MRO, then __dict__ (insertion order)."""
    out = []
    names = _slot_names(type(o))
    for s in names:
        try:
            out.append((s, getattr(o, s)))
        except AttributeError:
            out.append((s, _UNSET))
    d = getattr(o, '__dict__', None)
    if type(d) is dict:
        for k, v in d.items():
            if k not in names:
                out.append((k, v))
    return out


class _Unset:
    def __repr__(self):
        return '<unset>'


_UNSET = _Unset()

_DESCR = (types.FunctionType, types.BuiltinFunctionType, types.MethodType, property, staticmethod, classmethod,
          types.MemberDescriptorType, types.GetSetDescriptorType, types.WrapperDescriptorType,
          types.MethodDescriptorType)


_SKIP_NAMES = frozenset(('__module__', '__doc__', '__slots__', '__dict__', '__weakref__', '__qualname__',
                         '__annotations__', '__firstlineno__', '__static_attributes__', '__abstractmethods__',
                         '_abc_impl', '__parameters__', '__orig_bases__', '__hash__', '__match_args__'))
_DESCR_SET = frozenset(_DESCR)


def class_data(klass):
    """Data attributes stored on the class object itself (hidden shared state lives here)."""
    out = []
    for k, v in klass.__dict__.items():
        tv = type(v)
        if tv in _DESCR_SET or k in _SKIP_NAMES:
            continue
        if isinstance(v, _DESCR) or isinstance(v, type):
            continue
        out.append((k, v))
    return out


class Canon:
    """Canonical form of an object graph, exact up to renaming of object identities.

    Objects are named by first-visit order of a deterministic traversal from the given roots, so two graphs get
    the same canon iff there is an identity-renaming between them under which every field agrees.  ``names``
    lets the harness pin stable names on its own pool objects.  ``drop`` is a set of (class name, field) pairs
    left out (each use must be justified at the call site).  Class-level data attributes of every ECAgent class
    met on the way are included once per class (``lib_class_state``).
    """

    def __init__(self, drop=(), lib_class_state=True, lib_prefix='ECAgent'):
        self.drop = set(drop)
        self.lib_class_state = lib_class_state
        self.lib_prefix = lib_prefix

    def __call__(self, *roots):
        self.ids = {}
        self.cids = {}
        self.keep = []
        self.classes = {}
        self.classes_seen = set()
        body = tuple(self._c(r) for r in roots)
        if self.lib_class_state:
            extra = []
            done = set()
            while True:
                todo = [k for k in self.classes if k not in done]
                if not todo:
                    break
                for klass in todo:
                    done.add(klass)
                    extra.append((klass.__module__, klass.__qualname__,
                                  tuple((k, self._c(v)) for k, v in class_data(klass))))
            extra.sort(key=lambda t: (t[0], t[1]))
            # module-level containers of the library (a placeholder dict, a cache, a scratch list ...): part of the
            # state, and - through the alias tracking above - visible when an object's field IS such a container
            mods = []
            for mname in _LIB_MODULES:
                mod = sys.modules.get(mname)
                if mod is None:
                    continue
                for name, val in vars(mod).items():
                    tv = type(val)
                    if (tv is dict or tv is list or tv is set) and not name.startswith('__'):
                        mods.append((mname, name, self._c(val)))
            self.keep = []
            return body, tuple(extra), tuple(mods)
        self.keep = []
        return body

    def _c(self, o):
        t = type(o)
        kind = _KIND.get(t)
        if kind is None:
            kind = _KIND[t] = _classify(t)
        if kind == 0:      # atom
            return o
        if kind == 1:      # generic object
            key = id(o)
            idx = self.ids.get(key)
            if idx is not None:
                return ('ref', idx)
            idx = self.ids[key] = len(self.ids)
            if self.lib_class_state and t not in self.classes_seen:
                self._note_class(t)
            cname = t.__qualname__
            c = self._c
            if self.drop:
                drop = self.drop
                fields = tuple((n, c(v)) for n, v in _fields(o) if (cname, n) not in drop)
            else:
                fields = tuple((n, c(v)) for n, v in _fields(o))
            return ('obj', t.__module__, cname, idx, fields)
        if kind == 2:
            return ('f', o.hex())
        if kind == 3:
            c = self._c
            return ('t',) + tuple([c(x) for x in o])
        if kind == 4 or kind == 5:
            # mutable containers carry identity too: two fields holding the SAME list / dict object are a different
            # state from two fields holding equal ones (a later write through one shows through the other)
            key = id(o)
            n = self.cids.get(key)
            if n is not None:
                return ('alias', n)
            self.cids[key] = len(self.cids)
            self.keep.append(o)          # keeps temporaries alive so that ids cannot be reused within one call
            c = self._c
            if kind == 4:
                return ('l',) + tuple([c(x) for x in o])
            return ('d',) + tuple([(c(k), c(v)) for k, v in o.items()])
        return self._slow(o, t, kind)

    def _slow(self, o, t, kind):
        if kind == 'fraction':
            return ('q', o.numerator, o.denominator)
        if kind == 'set':
            return ('s',) + tuple(sorted((self._c(x) for x in o), key=repr))
        if kind == 'type':
            self._note_class(o)
            return ('cls', o.__module__, o.__qualname__)
        if kind == 'fn':
            return ('fn', getattr(o, '__module__', None), getattr(o, '__qualname__', repr(o)))
        if kind == 'meth':
            return ('meth', self._c(o.__self__), o.__func__.__qualname__)
        if kind == 'rng':
            if hasattr(o, 'script'):
                return ('srng', tuple(o.script), o.pos)
            return ('rng', hash(o.getstate()))
        if kind == 'logger':
            return ('logger', o.name)
        if kind == 'unset':
            return ('unset',)
        if kind == 'ndarray':
            return ('nd', str(o.dtype), o.shape, self._c(o.tolist()))
        if kind == 'npgeneric':
            return ('np', str(o.dtype), self._c(o.item()))
        if kind == 'df':
            return ('df', tuple(self._c(c) for c in o.columns), self._c(list(o.index)),
                    tuple(self._c(o[c].tolist()) for c in o.columns))
        if kind == 'series':
            return ('ser', self._c(list(o.index)), self._c(o.tolist()))
        if kind == 'intlike':
            return ('int', t.__qualname__, int(o))
        if kind == 'exc':
            return ('exc', t.__qualname__, self._c(o.args))
        if kind == 'sub':
            name = (t.__module__, t.__qualname__)
            if issubclass(t, str):
                return ('strsub', name, str.__str__(o))
            if issubclass(t, float):
                return ('fsub', name, float.hex(o))
            if issubclass(t, tuple):
                return ('tsub', name) + tuple([self._c(x) for x in tuple.__iter__(o)])
            # mutable: identity matters (see kinds 4 / 5), and so do the instance's own fields
            key = id(o)
            n = self.cids.get(key)
            if n is not None:
                return ('alias', n)
            self.cids[key] = len(self.cids)
            self.keep.append(o)
            if self.lib_class_state and t not in self.classes_seen:
                self._note_class(t)
            try:
                fields = tuple((fn, self._c(v)) for fn, v in _fields(o))
            except Exception:      # noqa - no inspectable fields
                fields = ()
            if issubclass(t, list):
                return ('lsub', name, fields) + tuple([self._c(x) for x in list.__iter__(o)])
            return ('dsub', name, fields) + tuple([(self._c(k), self._c(v)) for k, v in dict.items(o)])
        raise TypeError(kind)

    def _note_class(self, klass):
        self.classes_seen.add(klass)
        if not self.lib_class_state:
            return
        for k in klass.__mro__:
            if (k.__module__ or '').startswith(self.lib_prefix) and k not in self.classes:
                self.classes[k] = True


_KIND = {type(None): 0, bool: 0, int: 0, str: 0, bytes: 0, float: 2, tuple: 3, list: 4, dict: 5}


def _classify(t):
    if t is Fraction:
        return 'fraction'
    if t is set or t is frozenset:
        return 'set'
    if issubclass(t, type):
        return 'type'
    if issubclass(t, (types.FunctionType, types.BuiltinFunctionType)):
        return 'fn'
    if issubclass(t, types.MethodType):
        return 'meth'
    if issubclass(t, random.Random):
        return 'rng'
    if issubclass(t, logging.Logger):
        return 'logger'
    if t is _Unset:
        return 'unset'
    mod = t.__module__ or ''
    if mod.startswith('numpy'):
        import numpy as np
        if issubclass(t, np.ndarray):
            return 'ndarray'
        if issubclass(t, np.generic):
            return 'npgeneric'
    if mod.startswith('pandas'):
        import pandas
        if issubclass(t, pandas.DataFrame):
            return 'df'
        if issubclass(t, pandas.Series):
            return 'series'
    if issubclass(t, int):
        return 'intlike'
    if issubclass(t, BaseException):
        return 'exc'
    if issubclass(t, (tuple, list, dict, str, float)):
        return 'sub'         # a subclass of a built-in container / scalar (a dict with bookkeeping, a named tuple ...)
    return 1


def canon(*roots, drop=()):
    return Canon(drop=drop)(*roots)


# ---------------------------------------------------------------------------------------------------------
# Library class-level state
# ---------------------------------------------------------------------------------------------------------

_LIB_MODULES = ('ECAgent.Core', 'ECAgent.Environments', 'ECAgent.Collectors', 'ECAgent.Batching', 'ECAgent.Decode',
                'ECAgent.Tags')
_PRISTINE = None
_IMMUTABLE = (type(None), bool, int, float, str, bytes, tuple, frozenset)


def _lib_state_slots():
    """(owner, name, value) for every piece of module-level or class-level data of the library."""
    import importlib
    import sys
    out = []
    for mname in _LIB_MODULES:
        mod = sys.modules.get(mname) or importlib.import_module(mname)
        for name, val in list(vars(mod).items()):
            if name.startswith('__'):
                continue
            if isinstance(val, type):
                if val.__module__ == mname:
                    for k, v in class_data(val):
                        out.append((val, k, v))
            elif isinstance(val, (dict, list, set)) or (type(val).__module__ == mname
                                                       and not isinstance(val, types.FunctionType)):
                out.append((mod, name, val))
    return out


def _lib_functions():
    """Every function object the library defines: module-level functions and the functions behind methods, properties,
    static / class methods of its classes (wrappers are followed through __wrapped__)."""
    import sys
    import types
    seen, out = set(), []

    def add(f):
        depth = 0
        while f is not None and depth < 6:
            if isinstance(f, (staticmethod, classmethod)):
                f = f.__func__
                continue
            if isinstance(f, property):
                for g in (f.fget, f.fset, f.fdel):
                    add(g)
                return
            if id(f) in seen:
                return
            seen.add(id(f))
            if hasattr(f, 'cache_clear') or isinstance(f, types.FunctionType):
                out.append(f)
            f = getattr(f, '__wrapped__', None)
            depth += 1
    for modname in _LIB_MODULES:
        mod = sys.modules.get(modname)
        if mod is None:
            continue
        for v in list(vars(mod).values()):
            if isinstance(v, types.ModuleType):
                continue
            try:
                home = getattr(v, '__module__', None)
                cached = hasattr(v, 'cache_clear')
            except Exception:      # noqa
                continue
            if isinstance(v, type) and home == modname:
                for a in list(vars(v).values()):
                    add(a)
            elif home == modname or cached:
                add(v)
    return out


_PRISTINE_FUNCS = None
_LIB_FUNCS = None


def _snapshot_functions():
    """Mutable state hidden in function objects: containers captured in closures (a memo dict) and mutable default
    arguments.  Their pristine contents are remembered so that every execution starts from them."""
    import copy
    snap = []
    for f in _lib_functions():
        for i, cell in enumerate(getattr(f, '__closure__', None) or ()):
            try:
                v = cell.cell_contents
            except ValueError:
                continue
            if isinstance(v, (dict, list, set)):
                try:
                    snap.append((v, copy.deepcopy(v)))
                except Exception:      # noqa
                    pass
        for v in list(getattr(f, '__defaults__', None) or ()) + list((getattr(f, '__kwdefaults__', None) or {}).values()):
            if isinstance(v, (dict, list, set)):
                try:
                    snap.append((v, copy.deepcopy(v)))
                except Exception:      # noqa
                    pass
    return snap


def _reset_functions():
    """lru_cache-style caches are cleared, captured containers and mutable defaults get their pristine contents back (in
    place: the function keeps referring to the same object)."""
    import copy
    global _PRISTINE_FUNCS
    if _PRISTINE_FUNCS is None:
        _PRISTINE_FUNCS = _snapshot_functions()
    global _LIB_FUNCS
    if _LIB_FUNCS is None:
        _LIB_FUNCS = [f for f in _lib_functions() if hasattr(f, 'cache_clear')]
    for f in _LIB_FUNCS:
        clear = getattr(f, 'cache_clear', None)
        if clear is not None:
            try:
                clear()
            except Exception:      # noqa
                pass
    for live, pristine in _PRISTINE_FUNCS:
        fresh = copy.deepcopy(pristine)
        if isinstance(live, dict):
            live.clear()
            live.update(fresh)
        elif isinstance(live, list):
            live[:] = fresh
        else:
            live.clear()
            live |= fresh


def snapshot_library():
    """Remember the pristine module-level and class-level data of the library (taken right after import)."""
    global _PRISTINE
    import copy
    snap = []
    for owner, name, val in _lib_state_slots():
        if isinstance(val, _IMMUTABLE):
            snap.append((owner, name, val, False))
        else:
            try:
                snap.append((owner, name, copy.deepcopy(val), True))
            except Exception:
                pass
    _PRISTINE = snap


def reset_library():
    """Put all module-level and class-level library data back to its pristine value.

    Executions of the explorer share one interpreter, while every execution stands for a run on fresh objects.
    State that the library keeps outside the objects (the _MetaAgent stores, the global tag library, and any
    class-level container a change to the library may introduce) is therefore restored before each execution;
    sharing *within* an execution (several models alive at once) stays visible to the checks.
    """
    import copy
    if _PRISTINE is None:
        snapshot_library()
    _reset_functions()
    known = set()
    for owner, name, val, mutable in _PRISTINE:
        known.add((id(owner), name))
        v = copy.deepcopy(val) if mutable else val
        if isinstance(owner, type):
            type.__setattr__(owner, name, v)
        else:
            setattr(owner, name, v)
    for owner, name, val in _lib_state_slots():
        if (id(owner), name) not in known and isinstance(owner, type):
            try:
                type.__delattr__(owner, name)
            except Exception:
                pass


def jsonable(o):
    """Best-effort JSON form of observations for replay files and evidence samples."""
    if o is None or isinstance(o, (bool, int, str)):
        return o
    if isinstance(o, float):
        return o if o == o and abs(o) != float('inf') else repr(o)
    if isinstance(o, Fraction):
        return str(o)
    if isinstance(o, (list, tuple, set, frozenset)):
        return [jsonable(x) for x in o]
    if isinstance(o, dict):
        return {str(k): jsonable(v) for k, v in o.items()}
    return repr(o)


# ---------------------------------------------------------------------------------------------------------
# Public snapshot: what "nothing changed" means
# ---------------------------------------------------------------------------------------------------------

def public_snapshot(model, agents=(), names=None, cells=False):
    """The state of a model as the documented attributes show it (Model.timestep / is_running, SystemManager.systems,
    execution_queue, component_pools, Environment.agents, Agent.id / tag / components, position coordinates).

    "A rejected operation changes nothing" and "a query does not alter the environment" are judged on THIS, not on
    the full-field canon used for state hashing: a cache or a statistic a maintainer adds is not a change a user
    can rely on or observe, while everything below is documented as part of the objects.  (Consequences of hidden
    state still surface, because the state hash keeps such states apart and the search explores them.)
    ``agents`` are extra agent objects that may not be resident (pool objects); ``names`` maps id(obj) -> label."""
    names = names or {}

    def nm(o):
        return names.get(id(o), f'{type(o).__name__}:{getattr(o, "id", "")}')

    def agent(a):
        comps = []
        for t, c in a.components.items():
            entry = [t.__name__, nm(c)]
            if hasattr(c, 'x') and hasattr(c, 'y') and hasattr(c, 'z'):
                entry.append((repr(c.x), repr(c.y), repr(c.z)))
            comps.append(tuple(entry))
        return (nm(a), a.id, repr(a.tag), tuple(comps))

    sm = model.systems
    env = model.environment
    out = [('timestep', sm.timestep), ('running', model.is_running()),
           ('systems', tuple((k, nm(v)) for k, v in sm.systems.items())),
           ('queue', tuple(nm(s) for s in sm.execution_queue)),
           ('sched', tuple((nm(s), repr(s.priority), s.frequency, s.start, s.end) for s in sm.systems.values())),
           ('pools', tuple((t.__name__, tuple(nm(c) for c in cs)) for t, cs in sm.component_pools.items())),
           ('env', type(env).__name__, tuple(agent(a) for a in env.agents.values()), agent(env)),
           ('others', tuple(agent(a) for a in agents))]
    for attr in ('width', 'height', 'depth', 'wrap_env'):
        if hasattr(env, attr):
            out.append((attr, repr(getattr(env, attr))))
    if cells and hasattr(env, 'cells'):
        df = env.cells
        out.append(('cells', tuple(df.columns), tuple(tuple(repr(v) for v in df[c].tolist()) for c in df.columns)))
    return tuple(out)


def ambient_logger(model):
    """Ambient configuration (see run.py): with VERIF_LOGGER_LEVEL set, every model the harness builds gets a
    caller-supplied logger at that level (assigning `model.logger` is what a user who wants another level does; the
    library's default logger is forced to INFO by every `Model()`)."""
    import logging
    import os
    lvl = os.environ.get('VERIF_LOGGER_LEVEL')
    if lvl:
        lg = logging.getLogger(f'verif-ambient-{lvl}')
        lg.setLevel(int(lvl))
        lg.propagate = False
        if not lg.handlers:
            lg.addHandler(logging.NullHandler())
        model.logger = lg
    return model


def new_model(seed=None, cls=None, **kw):
    """Every model a harness builds itself goes through here."""
    if cls is None:
        import ECAgent.Core as Core
        cls = Core.Model
    return ambient_logger(cls(seed=seed, **kw))
