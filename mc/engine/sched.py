"""E3 - worker processes under an exhaustively enumerated schedule.

``ECAgent.Batching`` reaches the operating system only through its module global ``Pool``.  ``SchedPool`` is a
drop-in for ``multiprocessing.Pool`` (context manager, ``imap`` / ``imap_unordered`` at chunksize 1) whose
dispatch and completion order is dictated by an *outcome* chosen by the explorer:

    outcome = (per-worker task sequences, completion order)

Semantics mirrored: tasks leave a FIFO in order; any idle worker may take the next one; a worker runs its tasks
one after the other in one process (so state leaking from one task to the next on the same worker is real);
inputs, results and exceptions cross the process boundary pickled; ``imap_unordered`` yields in completion order,
``imap`` in task order; an exception is re-raised in the parent when its result is yielded.

Workers are real forked processes.  Because workers share nothing, what a worker returns depends only on the
sequence of tasks it ran; each distinct (function, task sequence) is therefore executed once in a fresh forked
process and memoised, and every outcome is assembled from those executions - the parent side (the code under
test consuming the results) runs for real for every outcome.
"""
import os
import pickle
import struct
import sys
import traceback


# ---------------------------------------------------------------------------------------------------------
# outcome enumeration
# ---------------------------------------------------------------------------------------------------------

def outcomes(n, p):
    """All distinct (worker task sequences, completion order) of n FIFO tasks on p workers, chunksize 1."""
    p = max(1, min(p, n)) if n else 1
    seen = set()
    out = []

    def rec(nxt, hist, busy, done):
        # hist: tuple of task tuples per worker; busy: tuple of bools; done: completion order
        if nxt == n and not any(busy):
            ws = tuple(h for h in hist if h)
            key = (tuple(sorted(ws)), done)
            if key not in seen:
                seen.add(key)
                out.append((tuple(sorted(ws)), done))
            return
        if nxt < n:
            tried = set()
            for w in range(p):
                if not busy[w] and hist[w] not in tried:      # idle workers with equal histories are symmetric
                    tried.add(hist[w])
                    rec(nxt + 1, hist[:w] + (hist[w] + (nxt,),) + hist[w + 1:], busy[:w] + (True,) + busy[w + 1:],
                        done)
        for w in range(p):
            if busy[w]:
                rec(nxt, hist, busy[:w] + (False,) + busy[w + 1:], done + (hist[w][-1],))

    rec(0, tuple(() for _ in range(p)), tuple(False for _ in range(p)), ())
    return out


def default_outcome(n, p):
    """Zero deviations: lowest idle worker takes the next task, tasks complete in FIFO order."""
    p = max(1, min(p, n)) if n else 1
    ws = [[] for _ in range(p)]
    for i in range(n):
        ws[i % p].append(i)
    return (tuple(sorted(tuple(w) for w in ws if w)), tuple(range(n)))


# ---------------------------------------------------------------------------------------------------------
# worker executions (real forked processes, memoised per task sequence)
# ---------------------------------------------------------------------------------------------------------

class RemoteError(Exception):
    pass


def _run_worker(fn_bytes, arg_bytes_seq, init_bytes=None):
    """Fork a worker that runs the pool's initializer (if any), unpickles fn and its tasks, runs them in order and
    pickles every result back."""
    r, w = os.pipe()
    pid = os.fork()
    if pid == 0:
        code = 0
        try:
            os.close(r)
            out = []
            if init_bytes is not None:
                initializer, initargs = pickle.loads(init_bytes)
                initializer(*initargs)
            try:
                fn = pickle.loads(fn_bytes)
            except BaseException as e:       # noqa
                out = [('err', pickle.dumps(RemoteError(f'function not unpicklable in worker: {e!r}')))] * \
                      len(arg_bytes_seq)
                arg_bytes_seq = []
            for ab in arg_bytes_seq:
                try:
                    # the real pool maps the callable over a chunk (here: of one task) with list(map(...)); a
                    # StopIteration escaping the callable therefore ENDS the chunk instead of being reported
                    res = list(map(fn, [pickle.loads(ab)]))
                    try:
                        out.append(('ok', pickle.dumps(res)))
                    except BaseException as e:  # noqa
                        out.append(('err', pickle.dumps(RemoteError(f'result not picklable: {e!r}'))))
                except BaseException as e:      # noqa - the real pool ships any exception back to the parent
                    try:
                        out.append(('err', pickle.dumps(e)))
                    except BaseException:       # noqa
                        out.append(('err', pickle.dumps(RemoteError(f'{type(e).__name__}: {e}'))))
            blob = pickle.dumps(out)
            with os.fdopen(w, 'wb') as f:
                f.write(struct.pack('<Q', len(blob)))
                f.write(blob)
        except BaseException:                   # noqa
            traceback.print_exc()
            code = 1
        finally:
            os._exit(code)
    os.close(w)
    with os.fdopen(r, 'rb') as f:
        head = f.read(8)
        blob = f.read(struct.unpack('<Q', head)[0]) if len(head) == 8 else b''
    os.waitpid(pid, 0)
    if not blob:
        raise RuntimeError('worker process died without reporting')
    return pickle.loads(blob)


class WorkerCache:
    def __init__(self):
        self.cache = {}
        self.forks = 0

    def run(self, fn_bytes, arg_bytes_seq, init_bytes=None):
        key = (fn_bytes, tuple(arg_bytes_seq), init_bytes)
        if key not in self.cache:
            self.cache[key] = _run_worker(fn_bytes, list(arg_bytes_seq), init_bytes)
            self.forks += 1
        return self.cache[key]


# ---------------------------------------------------------------------------------------------------------
# the Pool stand-in
# ---------------------------------------------------------------------------------------------------------

class SchedPool:
    """Assigned to ``ECAgent.Batching.Pool``.  Class attributes carry the explorer's choice."""
    outcome = None          # (worker sequences, completion order) or None = default outcome
    cache = None            # WorkerCache
    log = None              # list collecting (processes, n, method) per use
    misfit = None           # set when the submitted batch did not fit the planned outcome

    def __init__(self, processes=None, initializer=None, initargs=(), maxtasksperchild=None, context=None):
        self.processes = processes if processes else (os.cpu_count() or 1)
        self.closed = False
        # like the real pool: every worker process runs initializer(*initargs) once before its first task
        self.init_bytes = pickle.dumps((initializer, tuple(initargs))) if initializer is not None else None

    def __enter__(self):
        return self

    def __exit__(self, *exc):
        self.closed = True
        return False

    def terminate(self):
        self.closed = True

    close = terminate

    def join(self):
        pass

    def _results(self, fn, iterable, method):
        tasks = list(iterable)
        n = len(tasks)
        fn_bytes = pickle.dumps(fn)                         # an unpicklable callable fails here, as in the real pool
        arg_bytes = [pickle.dumps(t) for t in tasks]
        oc = type(self).outcome or default_outcome(n, self.processes)
        workers, completion = oc
        if sorted(t for w in workers for t in w) != list(range(n)) or sorted(completion) != list(range(n)) \
                or len(workers) > self.processes:
            # the code under test submitted another number of tasks (or built a smaller pool) than the explorer
            # planned for: fall back to the default schedule and let the result comparison speak
            type(self).misfit = (oc, n, self.processes)
            workers, completion = default_outcome(n, self.processes)
        if type(self).log is not None:
            type(self).log.append((self.processes, n, method))
        cache = type(self).cache or WorkerCache()
        res = {}
        for seq in workers:
            out = cache.run(fn_bytes, [arg_bytes[t] for t in seq], self.init_bytes)
            for t, r in zip(seq, out):
                res[t] = r
        return res, completion

    def imap_unordered(self, fn, iterable, chunksize=1):
        res, completion = self._results(fn, iterable, 'imap_unordered')
        return _ResultIterator([res[t] for t in completion])

    def imap(self, fn, iterable, chunksize=1):
        res, completion = self._results(fn, iterable, 'imap')
        return _ResultIterator([res[t] for t in range(len(res))])

    def map(self, fn, iterable, chunksize=None):
        res, completion = self._results(fn, iterable, 'map')
        out = []
        for t in range(len(res)):
            kind, blob = res[t]
            obj = _parent_loads(blob)
            if kind == 'err':
                raise obj
            out.extend(obj)
        return out

    def map_async(self, fn, iterable, chunksize=None, callback=None, error_callback=None):
        pool = self

        class _Async:
            def get(self_, timeout=None):
                return pool.map(fn, iterable)

            def wait(self_, timeout=None):
                pass

            def ready(self_):
                return True
        return _Async()

    def apply_async(self, fn, args=(), kwds=None, callback=None, error_callback=None):
        raise NotImplementedError('SchedPool models imap / imap_unordered / map only')


class PoolHang(BaseException):
    """The real pool would never hand this batch back: its result-handler thread unpickles every result in the
    parent, and when that fails the thread dies, no further result is delivered and the caller blocks forever.
    (BaseException so that no `except Exception` in the code under test can swallow the modelled hang.)"""


def _parent_loads(blob):
    try:
        return pickle.loads(blob)
    except BaseException as e:       # noqa
        raise PoolHang(f'a worker\'s result cannot be unpickled in the parent ({type(e).__name__}: {e}): the real '
                       f'pool\'s result thread dies and the call never returns') from None


class _ResultIterator:
    """Like multiprocessing's IMapIterator: a plain iterator object (not a generator), so an exception shipped back
    from a worker is raised from __next__ exactly as the real pool does it."""

    def __init__(self, chunks):
        self.chunks = list(chunks)
        self.pending = []
        self.waited = False

    def __iter__(self):
        return self

    def __next__(self, timeout=None):
        if timeout is not None and (self.pending or self.chunks):
            # a caller that polls with a timeout meets the slow schedule: every result takes longer than one wait, so
            # each is preceded by exactly one multiprocessing.TimeoutError (as IMapIterator.next(timeout) raises it)
            if not self.waited:
                self.waited = True
                import multiprocessing
                raise multiprocessing.TimeoutError
            self.waited = False
        while not self.pending:
            if not self.chunks:
                raise StopIteration
            kind, blob = self.chunks.pop(0)
            obj = _parent_loads(blob)
            if kind == 'err':
                raise obj
            self.pending = list(obj)          # the chunk's results (none if the callable raised StopIteration)
        return self.pending.pop(0)

    next = __next__


def install(batching_module, outcome, cache, log=None):
    SchedPool.outcome, SchedPool.cache, SchedPool.log, SchedPool.misfit = outcome, cache, log, None
    batching_module.Pool = SchedPool


def uninstall(batching_module):
    from multiprocessing import Pool
    batching_module.Pool = Pool
    SchedPool.outcome = SchedPool.cache = SchedPool.log = None
