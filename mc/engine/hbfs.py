"""E1 - breadth-first search over operation histories, executed on the real objects.

A state is represented by the shortest history reaching it.  To take a transition the engine builds fresh
real objects (``h.fresh()``), replays the history and applies one more operation; live Python objects do not
copy reliably and class-level library state has to be reset per execution anyway.

Harness protocol (duck-typed):
    h.config            JSON-able description of the configuration (goes into replay files)
    h.fresh()        -> world   fresh real objects + fresh reference model
    h.ops(world)     -> list of JSON-able operations enabled in this state (may be a constant list)
    h.apply(world, op)          perform op on implementation and reference, compare observables; raise Violation
    h.check(world)              invariants + fault menu in the reached state; raise Violation
    h.canon(world)   -> hashable/marshal-able canonical state of the implementation
    h.refstate(world)-> canonical state of the reference model.  States are merged only if BOTH agree: a
                        divergence that happens to land in an implementation state already seen (with another
                        reference state) must still be checked and expanded
    h.outcome(world) -> hashable observable outcome (vacuity guard), optional
    h.known(world)   -> Violation(known=<finding id>) if the last op re-observed a listed finding, optional

Levels of the BFS can be expanded by several harness worker processes (``procs``): each worker expands a slice
of the frontier against the set of states known at the start of the level; the parent merges the slices in
frontier order, so the result (states, shortest histories, first violation) does not depend on ``procs``.
"""
import copy
import hashlib
import marshal
import multiprocessing
import os
import traceback
from concurrent.futures import ProcessPoolExecutor

from .report import Violation, HarnessError
from .seams import reset_library


def fresh(h):
    """Fresh world.  The fixture uses the library too (it builds models, agents, components): an exception raised while
    it is being built is a behaviour of the code under test and is reported as a violation, not as a harness failure."""
    reset_library()
    try:
        return h.fresh()
    except (Violation, HarnessError):
        raise
    except Exception as e:      # noqa
        tb = traceback.extract_tb(e.__traceback__)
        where = [f'{fr.filename.rsplit("/", 1)[-1]}:{fr.lineno}:{fr.name}' for fr in tb[-3:]]
        raise Violation(f'unexpected {type(e).__name__} while the initial objects were being built: {e}',
                        expected='no exception', observed={'exception': type(e).__name__, 'where': where})


def digest(k):
    # marshal format version 0: no object references and no interning flags, so equal values always serialise to
    # equal bytes (later versions encode *sharing* of sub-objects, which differs between equal structures)
    try:
        return hashlib.blake2b(marshal.dumps(k, 0), digest_size=16).digest()
    except ValueError:
        return hashlib.blake2b(repr(k).encode(), digest_size=16).digest()


CLONE = ['@clone']      # pseudo-operation: the whole world (model, agents, reference state) is replaced by a deep copy


def clone_world(w, h=None):
    """A deep copy of everything the harness holds: the copy of the model is wired to the copies of its agents, systems
    and components, and the reference state is copied along, so the copy can be judged exactly like the original.
    A harness that keeps tables keyed by object identity rebuilds them in ``after_clone(world)``."""
    try:
        w2 = copy.deepcopy(w)
    except Exception as e:      # noqa
        raise Violation(f'the model cannot be deep-copied after this history: {type(e).__name__}: {e}')
    if h is not None and hasattr(h, 'after_clone'):
        h.after_clone(w2)
    return w2


def run_history(h, history, check_every=True):
    """Replay ``history`` from the initial state with all checks; raises Violation at the first failure."""
    w = fresh(h)
    if check_every:
        _guard(h.check, w)
    cloned = False
    try:
        for op in history:
            if op == CLONE:
                w = clone_world(w, h)
                cloned = True
            else:
                _guard(h.apply, w, op)
            if check_every:
                _guard(h.check, w)
    except Violation as v:
        if cloned:
            raise Violation('[deep copy of the model] ' + v.msg, v.expected, v.observed, v.known)
        raise
    return w


def _guard_cloned(fn, w, history):
    try:
        _guard(fn, w)
    except Violation as v:
        if CLONE in history:
            raise Violation('[deep copy of the model] ' + v.msg, v.expected, v.observed, v.known)
        raise


def replay_case(h, case):
    """Replay a case written by explore(): optionally an earlier execution first (state-leak cases)."""
    if case.get('after') is not None:
        try:
            run_history(h, case['after'], check_every=False)
        except Violation:
            pass
    # exactly as explored: the prefix is applied without the per-state checks (they read, and reads can fill caches),
    # the check runs in the final state only; if that passes, the history is also run with a check after every step
    w = run_history(h, case['history'], check_every=False)
    _guard_cloned(h.check, w, case['history'])
    return run_history(h, case['history'])


def _guard(fn, *a):
    try:
        return fn(*a)
    except (Violation, HarnessError):
        raise
    except Exception as e:  # an exception the harness did not anticipate is a behaviour of the code under test
        tb = traceback.extract_tb(e.__traceback__)
        where = [f'{fr.filename.rsplit("/", 1)[-1]}:{fr.lineno}:{fr.name}' for fr in tb[-4:]]
        raise Violation(f'unexpected {type(e).__name__}: {e}', expected='no exception',
                        observed={'exception': type(e).__name__, 'text': str(e), 'where': where})


_G = {}


def _expand(histories):
    """Expand every history in the slice by every enabled op. Runs in the parent or in a forked worker."""
    h, seen, dedup, has_outcome = _G['h'], _G['seen'], _G['dedup'], _G['has_outcome']
    has_known = hasattr(h, 'known')
    local = set()
    new_states = []       # (digest, history)
    viols = []            # (history, Violation)
    outcomes = set()
    transitions = 0
    prev = None
    for hist in histories:
        w = fresh(h)
        for op in hist:
            h.apply(w, op)
        ops = list(h.ops(w))
        if _G.get('clone'):
            # the state reached by hist, deep-copied: the copy passes the same checks, and so does every single
            # operation continued on a copy (copies are not added to the frontier: they are the same states)
            for op in [None] + ops:
                transitions += 1
                tail = [CLONE] + ([op] if op is not None else [])
                try:
                    w2 = fresh(h)
                    for p in hist:
                        h.apply(w2, p)
                    w2 = clone_world(w2, h)
                    if op is not None:
                        _guard(h.apply, w2, op)
                    _guard(h.check, w2)
                except Violation as v:
                    viols.append((hist + tail, ('[deep copy of the model] ' + v.msg, v.expected, v.observed, v.known),
                                  None))
        for op in ops:
            w = fresh(h)
            try:
                for p in hist:
                    h.apply(w, p)
            except Violation as v:
                # the same prefix passed on fresh objects before: something outside the objects remembers
                # earlier executions (state leaking between models); reported with the execution that ran before
                viols.append((hist, ('a history that passed on fresh objects fails when re-executed on fresh '
                                     f'objects (state leaks between executions): {v.msg}', v.expected, v.observed,
                                     None), prev))
                continue
            transitions += 1
            try:
                _guard(h.apply, w, op)
                k = digest((h.canon(w), h.refstate(w)))
                new = (k not in seen and k not in local) if dedup else True
                if new:
                    _guard(h.check, w)
            except Violation as v:
                viols.append((hist + [op], (v.msg, v.expected, v.observed, v.known), None))
                prev = hist + [op]
                continue
            if has_known:
                kv = h.known(w)
                if kv is not None:      # a listed finding re-observed: recorded, but the state is still expanded
                    viols.append((hist + [op], (kv.msg, kv.expected, kv.observed, kv.known), None))
            if has_outcome:
                outcomes.add(hash(h.outcome(w)))
            prev = hist + [op]
            if new:
                local.add(k)
                new_states.append((k, hist + [op]))
    return new_states, viols, outcomes, transitions


DEFAULT_STATE_CAP = 400000


ABORT = None       # optional callable: a module sets it while a side process of its own may report a violation


def explore(ctx, h, leg, max_depth, dedup=True, max_states=DEFAULT_STATE_CAP, case_extra=None, procs=1, clone=False):
    """BFS to ``max_depth`` (or to the fixpoint if the frontier empties first).

    ``max_states`` is a deterministic budget: on the unchanged tree every leg stays far below it; a change to the
    library that introduces unbounded hidden state (a counter, a growing cache) would otherwise make the search run on
    for ever.  Hitting it is reported as a cap (exhaustive: false), never silently."""
    if max_states == DEFAULT_STATE_CAP and ctx.tier == 'thorough':
        max_states = 10 * DEFAULT_STATE_CAP
    base = {'leg': leg, 'config': h.config}
    if case_extra:
        base.update(case_extra)

    def case(hist):
        c = dict(base)
        c['history'] = list(hist)
        return c

    try:
        w0 = fresh(h)
        _guard(h.check, w0)
    except Violation as v:
        ctx.report(case([]), v)
        return {'states': 0, 'transitions': 0, 'fixpoint': False, 'depth': 0}
    seen = {digest((h.canon(w0), h.refstate(w0)))}
    frontier = [[]]
    states, transitions, depth_reached = 1, 0, 0
    capped = aborted = False
    _G.update(h=h, seen=seen, dedup=dedup, has_outcome=hasattr(h, 'outcome'), clone=clone)
    level = 0
    while frontier and not capped and not aborted:
        level += 1
        if ABORT is not None and ABORT():
            aborted = True        # a leg running next to this one (see c01) has found a violation: stop at this level
            break
        if procs > 1 and len(frontier) >= 4 * procs:
            n = min(procs, len(frontier))
            size = max(1, len(frontier) // (n * 4))
            slices = [frontier[i:i + size] for i in range(0, len(frontier), size)]
            mp = multiprocessing.get_context('fork')
            ex = ProcessPoolExecutor(max_workers=n, mp_context=mp)
            try:
                results = []
                for res in ex.map(_expand, slices):
                    results.append(res)
                    if ABORT is not None and ABORT():
                        aborted = True          # (see ABORT) the rest of this level is dropped
                        break
            finally:
                ex.shutdown(wait=True, cancel_futures=True)
        else:
            results = [_expand(frontier)]
        nxt = []
        for new_states, viols, outcomes, trans in results:
            transitions += trans
            ctx.traces += trans
            ctx.outcomes |= outcomes
            for hist, (msg, exp, obs, known), after in viols:
                c = case(hist)
                if after is not None:
                    c['after'] = after
                ctx.report(c, Violation(msg, exp, obs, known))
            if ctx.violations:
                aborted = True          # the level is finished (shortest counterexamples), nothing deeper is started
            for k, hist in new_states:
                if dedup and k in seen:
                    continue
                seen.add(k)
                states += 1
                depth_reached = max(depth_reached, len(hist))
                if states <= 4:
                    ctx.sample(case(hist))
                if max_states is not None and states >= max_states:
                    capped = True
                if len(hist) < max_depth:
                    nxt.append(hist)
        frontier = nxt
    if capped:
        ctx.cap(f'{leg}: state cap {max_states} hit')
    # fixpoint iff every state found was expanded: none was first found at the depth bound
    fixpoint = (not capped) and (not aborted) and depth_reached < max_depth
    ctx.add(states=states, transitions=transitions)
    _G.clear()
    return {'states': states, 'transitions': transitions, 'fixpoint': fixpoint, 'depth': depth_reached,
            'depth_bound': max_depth}
