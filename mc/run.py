#!/venv/bin/python
"""Runner: python mc/run.py <Cxx> [--tier quick|thorough] [--replay file]

exit 0  property held on everything explored (KNOWN-FINDING lines may be printed)
exit 1  VIOLATION property=<id> replay=<path>
exit 2  the machinery itself failed (non-reproducible replay, vacuous exploration, tree not importable)
"""
import argparse
import importlib
import json
import os
import pickle
import subprocess
import sys
import tempfile

HERE = os.path.dirname(os.path.abspath(__file__))
VERIF = os.path.dirname(HERE)

# properties whose check varies the hash seed itself still run their *driver* under PYTHONHASHSEED=0
def _reexec_with_fixed_hashseed():
    if os.environ.get('PYTHONHASHSEED') != '0':
        env = dict(os.environ)
        env['PYTHONHASHSEED'] = '0'
        os.execve(sys.executable, [sys.executable] + sys.argv, env)


def _bind_tree():
    tree = os.path.abspath(os.environ.get('ECAGENT_TREE', '/repo'))
    sys.path.insert(0, tree)
    sys.path.insert(0, VERIF)
    import ECAgent
    got = os.path.dirname(os.path.abspath(ECAgent.__file__))
    if os.path.dirname(got) != tree:
        print(f'HARNESS-ERROR: ECAgent imported from {got}, expected tree {tree}')
        sys.exit(2)
    return tree


# ambient configurations: the module's small exploration is repeated in fresh interpreters that differ in something
# no operation of the alphabet changes - the interpreter's flags, the level of the models' logger
AMBIENT = [{'pyflags': ['-O'], 'env': {}},
           # warnings turned into errors (a CI setting): deprecation warnings excepted, the harnesses use the deprecated
           # spellings on purpose
           {'pyflags': ['-W', 'error', '-W', 'ignore::DeprecationWarning'], 'env': {}},
           {'pyflags': [], 'env': {'VERIF_LOGGER_LEVEL': '10'}},
           {'pyflags': [], 'env': {'VERIF_LOGGER_LEVEL': '30'}}]


def _ambient_active(amb):
    if '-O' in amb.get('pyflags', ()) and sys.flags.optimize < 1:
        return False
    if '-W' in amb.get('pyflags', ()) and not sys.warnoptions:
        return False
    return all(os.environ.get(k) == v for k, v in amb.get('env', {}).items())


def _ambient_name(amb):
    return ' '.join(['python'] + list(amb.get('pyflags', ())) + [f'{k}={v}' for k, v in sorted(amb.get('env', {}).items())])


def replay_one(mod, pid, case):
    """Replays one recorded case; returns None (holds) or (message, known-finding id).  A case found by an ambient
    leg ({'ambient': {...}, 'case': ...}) is replayed in an interpreter started the same way."""
    from mc.engine.report import Violation
    if isinstance(case, dict) and 'ambient' in case:
        amb = case['ambient']
        if not _ambient_active(amb):
            r = subprocess.run([sys.executable] + list(amb.get('pyflags', ())) +
                               [os.path.abspath(__file__), pid, '--replay-inner'], input=json.dumps(case),
                               capture_output=True, text=True,
                               env=dict(os.environ, PYTHONHASHSEED='0', **amb.get('env', {})))
            lines = [ln for ln in r.stdout.splitlines() if ln.startswith('REPLAY-RESULT ')]
            if not lines:
                raise RuntimeError(f'replay child failed: {r.stdout[-400:]} {r.stderr[-400:]}')
            out = json.loads(lines[-1][len('REPLAY-RESULT '):])
            return None if out is None else tuple(out)
        case = case['case']
    try:
        mod.replay(case)
        return None
    except Violation as v:
        return (v.msg, v.known)


def ambient_legs(ctx, mod, pid):
    if not getattr(mod, 'AMBIENT_LEGS', False):
        return
    with tempfile.TemporaryDirectory(prefix='verif-ambient-') as d:
        procs = []
        for i, amb in enumerate(AMBIENT):
            out = os.path.join(d, f'export{i}.pickle')
            procs.append((amb, out, subprocess.Popen(
                [sys.executable] + list(amb['pyflags']) + [os.path.abspath(__file__), pid, '--tier', 'quick',
                                                           '--ambient-child', out],
                stdout=subprocess.PIPE, stderr=subprocess.STDOUT, text=True,
                env=dict(os.environ, PYTHONHASHSEED='0', **amb['env']))))
        for amb, out, pr in procs:
            text, _ = pr.communicate()
            if pr.returncode != 0 or not os.path.exists(out):
                print(f'HARNESS-ERROR: exploration under {_ambient_name(amb)} failed: {text[-1200:]}')
                sys.exit(2)
            with open(out, 'rb') as f:
                exp = pickle.load(f)
            for v in exp['violations']:
                v['case'] = {'ambient': amb, 'case': v['case']}
                v['msg'] = f'[{_ambient_name(amb)}] ' + v['msg']
            summary = {'states': exp['states'], 'transitions': exp['transitions'], 'executions': exp['traces'],
                       'legs_run': sorted({lg['leg'] for lg in exp['legs']})}
            exp['legs'] = []
            exp['samples'] = []
            exp['caps'] = []
            ctx.merge(exp)
            ctx.leg('ambient: ' + _ambient_name(amb), **summary)


def main():
    ap = argparse.ArgumentParser()
    ap.add_argument('prop')
    ap.add_argument('--tier', default=os.environ.get('VERIF_TIER') or 'quick', choices=['quick', 'thorough'])
    ap.add_argument('--replay')
    ap.add_argument('--replay-inner', action='store_true', help=argparse.SUPPRESS)
    ap.add_argument('--ambient-child', help=argparse.SUPPRESS)
    args = ap.parse_args()
    _reexec_with_fixed_hashseed()
    try:
        seed = int(os.environ.get('VERIF_SEED', '0') or 0)
    except ValueError:
        seed = 0
    os.environ.setdefault('ECAGENT_VERIF', '1')
    tree = _bind_tree()
    import warnings
    if not sys.warnoptions:      # an ambient leg started with -W keeps the filters it was given
        warnings.simplefilter('ignore')

    from mc.engine.report import Ctx, Violation, HarnessError, write_evidence, write_replay
    pid = args.prop.upper()
    mod = importlib.import_module(f'mc.props.{pid.lower()}')

    if args.replay_inner:
        out = replay_one(mod, pid, json.loads(sys.stdin.read()))
        print('REPLAY-RESULT ' + json.dumps(out))
        sys.exit(0)

    if args.ambient_child:
        ctx = Ctx(pid, 'quick', seed, tree)
        ctx.small = True
        mod.run(ctx)
        with open(args.ambient_child, 'wb') as f:
            pickle.dump(ctx.export(), f)
        sys.exit(0)

    if args.replay:
        with open(args.replay) as f:
            rec = json.load(f)
        case = rec['case']
        msgs = []
        for _ in range(2):
            msgs.append(replay_one(mod, pid, case))
        if msgs[0] != msgs[1]:
            print(f'note: the two replays of {args.replay} differ ({msgs}): the behaviour depends on something outside the '
                  f'recorded case')
            msgs = [m for m in msgs if m is not None] * 2
        if msgs[0] is None:
            print(f'replay {args.replay}: property holds on this case')
            sys.exit(0)
        msg, known = msgs[0]
        print(f'replay {args.replay}: {msg}' + (f' [matches known finding {known}]' if known else ''))
        if known:
            # what this case shows on this tree is a listed finding (section 7 of DESIGN.md): reported as such, not raised
            from mc.engine.report import load_known
            line = next((k['line'] for k in load_known().get('open', []) if k.get('id') == known), None)
            if line:
                print(line)
                sys.exit(0)
        print(f'VIOLATION property={pid} replay={args.replay}')
        sys.exit(1)

    ctx = Ctx(pid, args.tier, seed, tree)
    try:
        mod.run(ctx)
        if not ctx.violations:
            ambient_legs(ctx, mod, pid)
    except HarnessError as e:
        print(f'HARNESS-ERROR: {e}')
        sys.exit(2)

    # every violation becomes a replay file and is replayed twice before it is believed
    confirmed = []
    unreproduced = []
    seen_msgs = set()
    for v in ctx.violations:
        key = v['msg']
        if key in seen_msgs and len(confirmed) >= 1:
            continue
        seen_msgs.add(key)
        if len(confirmed) >= ctx.max_violations:
            break
        path = write_replay(pid, len(confirmed) + len(unreproduced) + 1, v, args.tier, seed)
        outs = []
        for _ in range(2):
            try:
                r = replay_one(mod, pid, v['case'])
                outs.append(None if r is None else
                            (f'[{_ambient_name(v["case"]["ambient"])}] ' if isinstance(v['case'], dict) and
                             'ambient' in v['case'] else '') + r[0])
            except HarnessError as e:
                outs.append(f'HARNESS:{e}')
        if outs[0] is None and outs[1] is None:
            # not believed: a counterexample has to fail again from its replay file
            unreproduced.append((path, v))
            continue
        if outs[0] != outs[1] or outs[0] != v['msg']:
            # the case fails again when replayed, but not at the same point / not every time: the behaviour depends on
            # something outside the recorded case (object addresses, an unseeded generator).  The unchanged library has no
            # such dependence, so this is reported as a violation, marked unstable.
            v = dict(v, msg=v['msg'] + '  [unstable replay: ' + ' / '.join(str(o) for o in outs) + ']')
        confirmed.append((path, v))

    if unreproduced and not confirmed:
        # every reported violation vanished on replay: the machinery (or something it does not control) is at fault
        path, v = unreproduced[0]
        print(f'HARNESS-ERROR: violation did not reproduce from {path}: explored={v["msg"]!r}')
        write_evidence(ctx, getattr(mod, 'META', {}), len(ctx.violations))
        sys.exit(2)
    for path, v in unreproduced:
        print(f'note: a further reported case did not fail again on replay and is not counted ({path}): {v["msg"][:160]}')

    meta = getattr(mod, 'META', {})
    path, ev = write_evidence(ctx, meta, len(confirmed))

    for fid in sorted(ctx.known_seen):
        k = ctx.known_open[fid]
        print(f'{k["line"]}  [re-observed on {ctx.known_count[fid]} explored cases; first: '
              f'{json.dumps(ctx.known_seen[fid])[:160]}]')

    cov = ev['coverage']
    print(f'{pid} tier={args.tier} seed={seed} states={cov["states"]} transitions={cov["transitions"]} '
          f'executions={cov["traces_validated_against_impl"]} outcomes={cov["distinct_nontrivial"]} '
          f'exhaustive={cov["exhaustive"]} wall={ev["wall_s"]}s')
    if confirmed:
        for path, v in confirmed:
            print(f'  {v["msg"]}')
            print(f'  case: {json.dumps(v["case"])[:400]}')
            print(f'VIOLATION property={pid} replay={path}')
        sys.exit(1)
    if cov['distinct_nontrivial'] < 2:
        print('HARNESS-ERROR: vacuous exploration (fewer than 2 distinct outcomes observed)')
        sys.exit(2)
    sys.exit(0)


if __name__ == '__main__':
    try:
        main()
    except SystemExit:
        raise
    except BaseException:
        import traceback
        traceback.print_exc()
        print('HARNESS-ERROR: the runner itself failed (see traceback)')
        sys.exit(2)
